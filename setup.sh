#!/bin/sh
# offline release build of the simulation harness with the cfg(specs_verif) hooks enabled
mkdir -p /verif/target /verif/evidence
cd /verif/dst || exit 2
export CARGO_NET_OFFLINE=true
cargo build --release --offline 2>&1 | tail -3
test -x /verif/target/release/dst
