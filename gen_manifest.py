#!/usr/bin/env python3
"""Writes /verif/MANIFEST.json from the table below (kept in one place so it stays valid)."""
import json, subprocess

CHECKS = {
 # id: (engine, level, technique, text, note, design_ref)
 "C01": ("worldsim", "exploration", "deterministic simulation: seeded create/delete/maintain histories (exclusive + baton-scheduled parallel phases) against a handle-agnostic reference model",
         "Every handle returned by every creation path is checked against all handles ever returned and against the model's not-yet-dead occupant of its index, over tens of thousands of seeded histories per quick run (millions thorough), including parallel phases under the seeded baton scheduler.",
         "samples histories and schedules; sequentially consistent interleavings between hook yield points only", "DESIGN.md 4/C01"),
 "C02": ("worldsim", "exploration", "deterministic simulation: seeded lifecycle histories, operation-by-operation refinement against a reference model of the create/delete/maintain timeline",
         "After every operation is_alive (both views), deletion results and the entities join are compared with the model for all handles ever returned.",
         "samples histories; the model's reading of the timeline is the specification", "DESIGN.md 4/C02"),
 "C17": ("worldsim", "exploration", "deterministic simulation: long seeded churn histories with an index-bound oracle (index < running peak of not-yet-dead entities)",
         "Every creation in long churn histories is checked against the running peak; found and led to the repair of the batch-deletion leak (known_findings.txt).",
         "samples histories", "DESIGN.md 4/C17"),
}

NOT_APPLICABLE = {
 "C06": "pure function of the members' masks and contents: no schedule, clock, fault, crash point or deferred state in its statement; generating masks would be property-based testing, not simulation",
 "C14": "round trip is a pure function of the world content; specs performs no I/O of its own and the statement has no fault or ordering in time",
 "C16": "a change set is a pure function of the pair sequence; value conservation and clear-under-panic are covered under C08/C19",
 "C18": "derive macros are compile-time program transformers; no run-time state, schedule or fault for a simulator to own",
}

def main():
    hooks = subprocess.run(["git", "-C", "/repo", "log", "--format=%h %s", "--grep=^verif hooks"], capture_output=True, text=True).stdout.strip().splitlines()
    checks = []
    for pid, (engine, level, tech, text, note, ref) in sorted(CHECKS.items()):
        checks.append({
            "property_id": pid,
            "quick_cmd": f"./check {pid} quick",
            "thorough_cmd": f"./check {pid} thorough",
            "evidence_file": f"/verif/evidence/{pid}.json",
            "replay_cmd_template": f"./check {pid} --replay {{path}}",
            "engine": engine,
            "level_claimed": {"category": level, "text": text, "design_ref": ref},
            "level_note": note,
            "technique": tech,
        })
    props = [json.loads(l)["id"] for l in open("/verif/properties.jsonl")]
    na = []
    for pid in props:
        if pid in CHECKS:
            continue
        reason = NOT_APPLICABLE.get(pid, "check not built yet in this snapshot of /verif (engine under construction); not claimed")
        na.append({"property_id": pid, "reason": reason})
    m = {
        "version": 1,
        "setup_cmd": "./setup.sh",
        "hooks": {
            "guard": "specs_verif",
            "enable": "RUSTFLAGS=\"--cfg specs_verif --check-cfg cfg(specs_verif)\" (set in /verif/dst/.cargo/config.toml; the harness depends on specs by path = /repo, so every check rebuilds from the working tree)",
            "baseline_off_cmd": "cd /repo && cargo test --workspace --no-fail-fast --offline",
            "source_commits": [h.split()[0] for h in hooks],
            "add_only": True,
        },
        "engines": [
            {"name": "worldsim", "path": "/verif/dst/src/wexec.rs", "serves_properties": [p for p,(e,*_) in CHECKS.items() if e == "worldsim"], "kind_free_text": "frame-loop simulator: real specs::World vs reference model, baton-scheduled parallel phases, destructor-fault injection, crash = world dropped mid-frame"},
        ],
        "checks": checks,
        "not_applicable": na,
        "notes": "Technique family: deterministic simulation with fault injection. See DESIGN.md. Genuine defect repaired: see known_findings.txt.",
    }
    json.dump(m, open("/verif/MANIFEST.json", "w"), indent=1)
    print("checks:", [c["property_id"] for c in checks], "n/a:", [n["property_id"] for n in na])

main()
