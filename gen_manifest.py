#!/usr/bin/env python3
"""Writes /verif/MANIFEST.json from the table below (kept in one place so it stays valid)."""
import json, subprocess

CHECKS = {
 # id: (engine, level, technique, text, note, design_ref)
 "C01": ("worldsim", "exploration", "deterministic simulation: seeded create/delete/maintain histories (exclusive + baton-scheduled parallel phases) against a handle-agnostic reference model",
         "Every handle returned by every creation path is checked against all handles ever returned and against the model's not-yet-dead occupant of its index, over tens of thousands of seeded histories per quick run (millions thorough), including parallel phases under the seeded baton scheduler.",
         "samples histories and schedules; sequentially consistent interleavings between hook yield points only", "DESIGN.md 4/C01"),
 "C02": ("worldsim", "exploration", "deterministic simulation: seeded lifecycle histories, operation-by-operation refinement against a reference model of the create/delete/maintain timeline",
         "After every operation is_alive (both views), deletion results and the entities join are compared with the model for all handles ever returned.",
         "samples histories; the model's reading of the timeline is the specification", "DESIGN.md 4/C02"),
 "C17": ("worldsim", "exploration", "deterministic simulation: long seeded churn histories with an index-bound oracle (index < running peak of not-yet-dead entities)",
         "Every creation in long churn histories is checked against the running peak; found and led to the repair of the batch-deletion leak (known_findings.txt).",
         "samples histories; a second part keeps the index-bound oracle active across caught destructor panics (fault configuration)", "DESIGN.md 4/C17, 13"),
 "C03": ("worldsim", "exploration", "deterministic simulation: histories that manufacture stale handles (index reused 0..n times, re-user merged or awaiting maintain), every handle-taking access path probed, reference-model oracle",
         "Dead handles - biased to those whose index is re-occupied by an entity that has the component - are sent through get/get_mut/contains/insert/remove/entry/get_mut_or_default/lend-join get/restricted get_other(_mut)/lazy insert+remove for every storage kind; results and the occupant's state are compared with the model.",
         "samples histories; storage kinds and access paths are swarm-chosen per run", "DESIGN.md 4/C03"),
 "C04": ("worldsim", "exploration", "deterministic simulation, fault-free storage configuration (the strict twin of C19): seeded operation histories over all 18 storage configurations against a BTreeMap reference model",
         "Every storage operation's return value, the mask, count, emptiness, joins, slices and per-entity lookups are compared with the model after every step.",
         "no schedule is involved (storages are reached through &mut); the simulator contributes history generation, op-by-op refinement, minimisation, replay and the fault-free/faulty twin configuration", "DESIGN.md 4/C04"),
 "C05": ("worldsim", "exploration", "deterministic simulation: create/insert/delete histories over 2-6 storages with swarm-chosen registration paths, reference-model comparison after every deleting and creating operation",
         "After each deletion path (immediate, batch failing at k, delete_all, deferred at maintain, dropped builders) every storage is compared in full with the model; every new entity is checked to start empty.",
         "samples histories and registration paths", "DESIGN.md 4/C05"),
 "C08": ("worldsim", "exploration", "deterministic simulation with crash points: value ledger (construction/destruction of instrumented components) over full histories ending with the world dropped at a generated point",
         "Each operation's set of destroyed values must equal the model's; values returned are accounted once; after the world is dropped (possibly mid-frame, un-merged entities, non-empty lazy queue) nothing is left alive and nothing was destroyed twice.",
         "samples histories; Val carries no heap pointer so a double drop is observed, not UB; a second part runs the destructor-fault configuration (the exactly-once clause is unconditional); thorough tier additionally runs the heap-owning `values` scenario under Miri", "DESIGN.md 4/C08, 13"),
 "C09": ("worldsim", "exploration", "deterministic simulation: scripted lazy closures (data) logging what they observe inside maintain, replayed on the reference model in queue order",
         "Execution log must equal queue order with nested closures last in the same maintain, each exactly once; observations inside closures must equal the model state after merge and purge; queue empty on return.",
         "samples histories; closure nesting depth <= 2", "DESIGN.md 4/C09"),
 "C10": ("worldsim", "exploration", "deterministic simulation: 2-4 simulated tasks under a seeded baton scheduler (uniform / sticky / PCT / round-robin) with cfg(specs_verif) yield points inside the lock-free allocator and spurious-CAS buggify; set-based oracle; explicit schedule replay and minimisation",
         "Handles pairwise distinct and alive for the creator, deletes of live handles succeed, joins contain what they must, post-maintain alive set = initial + created - deleted, lazy log = push order.",
         "sequentially consistent interleavings of the segments between yield points; AtomicBitSet/SegQueue internals are atomic steps in the baton runs; the thorough tier adds 48 Miri seeds (real threads, Miri's seeded scheduler and weak-memory emulation, no hooks)", "DESIGN.md 4/C10, 13"),
 "C12": ("worldsim", "exploration", "deterministic simulation: tracked-storage histories (both wrappers over every inner kind), event channel read after every operation and compared with MUST / MUST-NOT / MAY expectations from the reference model; emission toggled",
         "Inserted/Removed exactly and in order, Modified iff mutable access reached the caller, nothing for read-only access or while emission is off; replaying events reproduces the mask.",
         "histories without bulk clear() (excluded by the property); Modified is checked as iff, not as a count; removal events of one operation are compared as a set; a second part (`trackedfaults`) checks that membership replay survives a destructor panic inside entity deletion", "DESIGN.md 4/C12, 13"),
 "C13": ("worldsim", "exploration", "deterministic simulation: restricted-storage joins (read, shared-write, exclusive lending) over model-generated contents with stale/dead/un-merged other-entity lookups and seeded subsets fetched mutably",
         "Visited indices, own values, other-entity lookups, writes and Modified events are compared with the model.",
         "sequential and lending forms in worldsim; parallel forms (restrict / restrict_mut par_join) in joinsim mode A/B", "DESIGN.md 4/C13"),
 "C19": ("worldsim", "fault_enumeration", "deterministic simulation with fault injection: for each seeded history every destructor call the model predicts for every destroying operation (and world teardown) is made to panic, one execution per (operation, call) pair, caught, ledger + lookups checked, model re-synchronised narrowly, run continued under the strict oracle",
         "No value destroyed twice, no lookup/join/slice exposes a destroyed value, world usable afterwards; all four protection mechanisms named by the property were shown to be caught when removed.",
         "one fault armed at a time; faults keyed on value identity (hash-map drop order is per-process); fault points per history enumerated up to a cap of 48+; thorough tier additionally runs the heap-owning `faults` scenario under Miri (double free / use-after-free become hard errors)", "DESIGN.md 4/C19, 13"),
 "C07": ("joinsim", "exploration", "deterministic simulation of the work-stealing bridge: (A) seeded split tree over the real private JoinProducer (cfg(specs_verif) hook) with leaves as baton-scheduled tasks and in-hand tracking, (B) rayon's real bridge on a virtual pool of N workers with one running thread; oracle from the reference contents",
         "Delivered multiset = expected intersection (none missing, none twice), no index in two hands at once, item contents = model, storages afterwards = mutation applied exactly once per item, for 10 member mixes, 18 storage configurations, widths to 265k, pool sizes 1..1000.",
         "split trees are sampled; visibility after par_join returns is rayon's join guarantee", "DESIGN.md 3/E2, 4/C07"),
 "C11": ("dispatchsim", "exploration", "deterministic simulation of the dispatcher: generated system graphs with runtime-composed system data built from the real reads()/writes()/fetch(); (1) declaration-vs-borrow probing, (2) shred's printed stage plan executed on the baton scheduler, (3) adversarial maximal-parallel executor; reader/writer monitor",
         "Every system once, no writer overlapping another user of the same storage, dependencies respected, no borrow panic; what a storage handle borrows equals what it declares.",
         "shred's Stage::execute/rayon replaced by baton tasks; planner behaviour is shred's", "DESIGN.md 3/E3, 4/C11"),
 "C15": ("savesim", "exploration", "deterministic simulation with stream faults: seeded mark/delete/maintain/allocator-maintain/serialise/deserialise histories over two worlds; the byte stream is owned by the simulator (truncation, byte corruption, failing writer); before/after observation oracle with independently parsed data",
         "After every step live marker ids are unique; marking a marked entity returns its marker; a successful load updates existing carriers in place, creates entities only for unknown ids, sets/removes component types as the data says, resolves references by marker, leaves everything else untouched.",
         "SimpleMarker only; the stale allocator mapping is the deferred state that makes this a simulation target", "DESIGN.md 3/E4, 4/C15"),
 "C20": ("twin", "exploration", "deterministic simulation turned on itself: per-seed transcript (handles, results, join orders, event streams, serialised bytes) computed twice in one process with heap/hasher perturbation in between (the second time under a simulated clock: clock_gettime is answered by the harness with seeded forward jumps) and again in a different batch of worker processes; all hashes must agree",
         "Same-process twin worlds and cross-process re-execution (different hash seeds, address layout, worker count) produce identical transcripts for every seed.",
         "ahash's per-process keys have no seam and are varied by re-executing in other processes; destructor order in hash-map storages is not an observable the property lists; a third part runs the twin comparison over fault-injected histories (state leaking from one world to the next after a caught panic), a fourth over histories with thousands of live entities and thousand-handle batches (hidden intra-call parallelism); a C20 replay re-executes the seed several times in this and in fresh processes", "DESIGN.md 4/C20, 13"),
}

NOT_APPLICABLE = {
 "C06": "pure function of the members' masks and contents: no schedule, clock, fault, crash point or deferred state in its statement; generating masks would be property-based testing, not simulation",
 "C14": "round trip is a pure function of the world content; specs performs no I/O of its own and the statement has no fault or ordering in time",
 "C16": "a change set is a pure function of the pair sequence; value conservation and clear-under-panic are covered under C08/C19",
 "C18": "derive macros are compile-time program transformers; no run-time state, schedule or fault for a simulator to own",
}

def main():
    hooks = subprocess.run(["git", "-C", "/repo", "log", "--format=%h %s", "--grep=^verif hooks"], capture_output=True, text=True).stdout.strip().splitlines()
    checks = []
    for pid, (engine, level, tech, text, note, ref) in sorted(CHECKS.items()):
        checks.append({
            "property_id": pid,
            "quick_cmd": f"./check {pid} quick",
            "thorough_cmd": f"./check {pid} thorough",
            "evidence_file": f"/verif/evidence/{pid}.json",
            "replay_cmd_template": f"./check {pid} --replay {{path}}",
            "engine": engine,
            "level_claimed": {"category": level, "text": text, "design_ref": ref},
            "level_note": note,
            "technique": tech,
        })
    props = [json.loads(l)["id"] for l in open("/verif/properties.jsonl")]
    na = []
    for pid in props:
        if pid in CHECKS:
            continue
        reason = NOT_APPLICABLE.get(pid, "check not built yet in this snapshot of /verif (engine under construction); not claimed")
        na.append({"property_id": pid, "reason": reason})
    m = {
        "version": 1,
        "setup_cmd": "./setup.sh",
        "hooks": {
            "guard": "specs_verif",
            "enable": "RUSTFLAGS=\"--cfg specs_verif --check-cfg cfg(specs_verif)\" (set in /verif/dst/.cargo/config.toml; the harness depends on specs by path = /repo, so every check rebuilds from the working tree)",
            "baseline_off_cmd": "cd /repo && cargo test --workspace --no-fail-fast --offline",
            "source_commits": [h.split()[0] for h in hooks],
            "add_only": True,
        },
        "engines": [
            {"name": "mirisim", "path": "/verif/miri/src/main.rs", "serves_properties": ["C08", "C10", "C19"], "kind_free_text": "thorough tier only: scenarios with heap-owning values and real threads under Miri's seeded scheduler (hook-free second simulator)"},
            {"name": "savesim", "path": "/verif/dst/src/savesim.rs", "serves_properties": ["C15"], "kind_free_text": "marker/save-load histories over two worlds with stream faults"},
            {"name": "twin", "path": "/verif/dst/src/twin.rs", "serves_properties": ["C20"], "kind_free_text": "twin-run (second run under a simulated, jumping clock) and cross-process transcript comparison"},
            {"name": "joinsim", "path": "/verif/dst/src/joinsim.rs", "serves_properties": ["C07", "C13"], "kind_free_text": "parallel joins under a simulated work-stealing bridge (seeded split tree + baton tasks) and under rayon's real bridge on a virtual pool"},
            {"name": "dispatchsim", "path": "/verif/dst/src/dispatchsim.rs", "serves_properties": ["C11"], "kind_free_text": "system graphs: declaration-vs-borrow, shred's plan on the baton executor, adversarial executor"},
            {"name": "worldsim", "path": "/verif/dst/src/wexec.rs", "serves_properties": [p for p,(e,*_) in CHECKS.items() if e == "worldsim"], "kind_free_text": "frame-loop simulator: real specs::World vs reference model, baton-scheduled parallel phases, destructor-fault injection, crash = world dropped mid-frame"},
        ],
        "checks": checks,
        "not_applicable": na,
        "notes": "Technique family: deterministic simulation with fault injection. See DESIGN.md (sections 13-15: as built, sensitivity incl. 82 independently written changes under /verif/seeded, alarm triage). Genuine defect repaired: see known_findings.txt. Thorough tier: 4-15 min per property on 16 cores (Miri scenarios for C08/C10/C19 included); workers are recycled every 2000 runs.",
    }
    json.dump(m, open("/verif/MANIFEST.json", "w"), indent=1)
    print("checks:", [c["property_id"] for c in checks], "n/a:", [n["property_id"] for n in na])

main()
