#!/bin/sh
# development aid: apply a patch (python snippet file editing /repo) , run a check, revert.
# usage: tools/mutcheck.sh <prop> <file-in-repo> <python-expr on s>   e.g. 's.replace("a","b",1)'
prop="$1"; file="$2"; expr="$3"
cd /repo || exit 2
if [ -n "$(git status --porcelain)" ]; then echo "repo dirty"; exit 2; fi
python3 - "$file" "$expr" <<'PY'
import sys
p, expr = sys.argv[1], sys.argv[2]
s = open(p).read()
t = eval(expr)
if t == s:
    print("MUTATION DID NOT APPLY"); sys.exit(3)
open(p, 'w').write(t)
PY
rc=$?
if [ $rc -eq 0 ]; then
  cd /verif && ./check "$prop" quick | tail -4
  echo "check exit=$?"
fi
git -C /repo checkout -- .
