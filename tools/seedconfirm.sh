#!/bin/sh
# Confirms a sub-agent's claims in its scratch worktree /tmp/mut-<id>: with the change the existing
# suite passes and the demo fails; without it the demo passes. Writes /tmp/mut-<id>/deliver/confirm.txt
id="$1"; wt=${WT:-/tmp/mut-$id}; d=$wt/deliver
export CARGO_NET_OFFLINE=true CARGO_TARGET_DIR=/tmp/seed-target-$id
cd $wt || exit 2
git checkout -q -- . ; git clean -fdq tests src
git apply --check $d/patch.diff || { echo "patch does not apply" > $d/confirm.txt; exit 1; }
git apply $d/patch.diff
suite=$(cargo test --workspace --no-fail-fast --offline -j 6 2>&1 | grep -E "^test result" | awk '{p+=$4; f+=$6} END {print p" passed "f" failed"}')
cp $d/demo.rs tests/zz_demo.rs
cargo test --offline -j 6 $FEAT --test zz_demo >/tmp/seed-demo-$id-with.log 2>&1; with=$?
git apply -R $d/patch.diff
cargo test --offline -j 6 $FEAT --test zz_demo >/tmp/seed-demo-$id-without.log 2>&1; without=$?
rm -f tests/zz_demo.rs
git apply $d/patch.diff
echo "suite_with_change: $suite; demo_with_change_exit: $with; demo_without_change_exit: $without" > $d/confirm.txt
cat $d/confirm.txt
rm -rf /tmp/seed-target-$id /tmp/seed-demo-$id-*.log
