#!/bin/sh
# Applies /tmp/mut-<id>/deliver/patch.diff (or /verif/seeded/<id>/patch.diff) to /repo, runs every
# quick check, undoes the change straight afterwards. Output: one line per check.
id="$1"; shift
patch=${PATCHDIR:-/tmp/mut-$id/deliver}/patch.diff
[ -f "$patch" ] || patch=/verif/seeded/$id/patch.diff
cd /repo || exit 2
if [ -n "$(git status --porcelain)" ]; then echo "repo dirty"; exit 2; fi
git apply "$patch" || exit 2
cd /verif
checks="$@"
[ -n "$checks" ] || checks="C01 C02 C03 C04 C05 C07 C08 C09 C10 C11 C12 C13 C15 C17 C19 C20"
for c in $checks; do
  out=$(./check $c quick 2>&1); rc=$?
  first=$(echo "$out" | grep -B1 "^VIOLATION" | head -1 | cut -c1-300)
  echo "$id check=$c exit=$rc $(echo "$out" | grep -E '^runs=' | cut -c1-80) | $first"
done
git -C /repo checkout -- .
