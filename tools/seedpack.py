#!/usr/bin/env python3
"""Builds /verif/seeded/<id>/meta.json from the matrix/confirm files and prints the catch table."""
import json, os, re, sys
root = '/verif/seeded'
NEEDS = json.load(open(os.path.join(root, 'needs.json'))) if os.path.exists(os.path.join(root, 'needs.json')) else {}
rows = []
for d in sorted(os.listdir(root)):
    p = os.path.join(root, d)
    if not os.path.isdir(p): continue
    mfile = os.path.join(root, 'matrix-%s.txt' % d)
    caught, clean, other = [], [], []
    first = {}
    if os.path.exists(mfile):
        for line in open(mfile):
            m = re.match(r'(\S+) check=(C\d+) exit=(\d+) (.*?) \| (.*)', line)
            if not m: continue
            _, chk, rc, stats, detail = m.groups()
            if rc == '1':
                caught.append(chk); first[chk] = detail.strip()[:240]
            elif rc == '0': clean.append(chk)
            else: other.append(chk + ':exit' + rc)
    prop = re.match(r'(C\d+)', d).group(1)
    # final regression: the own check re-run on the final machinery
    own_final = None
    ofile = os.path.join(root, 'own-%s.txt' % d)
    if os.path.exists(ofile):
        for line in open(ofile):
            m = re.match(r'(\S+) check=(C\d+) exit=(\d+) (.*?) \| (.*)', line)
            if m and m.group(2) == prop:
                own_final = (m.group(3) == '1')
                if own_final:
                    first[prop] = m.group(5).strip()[:240]
                    if prop not in caught: caught.append(prop); caught.sort()
                    if prop in clean: clean.remove(prop)
                elif m.group(3) == '0' and prop in caught:
                    caught.remove(prop); clean.append(prop)
    confirm = open(os.path.join(p, 'confirm.txt')).read().strip() if os.path.exists(os.path.join(p, 'confirm.txt')) else ''
    meta = {
        'breaks_property': prop,
        'seeded_dir': d,
        'what': NEEDS.get(d, {}).get('what', ''),
        'needs_to_manifest': NEEDS.get(d, {}).get('needs', ''),
        'confirmed_by_me': confirm,
        'how_confirmed': 'tools/seedconfirm.sh in the sub-agent\'s scratch worktree: existing suite (cargo test --workspace --no-fail-fast --offline) with the change; demo with the change; demo without the change',
        'checks_run': 'tools/seedrun.sh %s : git -C /repo apply patch.diff; ./check <id> quick for all 16 claimed properties; git -C /repo checkout -- .' % d,
        'own_property_check_caught_it': prop in caught,
        'own_check_rerun_on_final_machinery': own_final,
        'checks_that_reported_a_violation': caught,
        'checks_that_stayed_quiet': clean,
        'other_exits': other,
        'first_violation_reported_by_own_check': first.get(prop, ''),
    }
    json.dump(meta, open(os.path.join(p, 'meta.json'), 'w'), indent=1)
    rows.append((d, prop, prop in caught, caught, other))
print('| seeded change | breaks | own check | all checks reporting a violation |')
print('|---|---|---|---|')
for d, prop, own, caught, other in rows:
    print('| %s | %s | %s | %s%s |' % (d, prop, 'caught' if own else 'MISSED', ' '.join(caught), (' (' + ' '.join(other) + ')') if other else ''))
