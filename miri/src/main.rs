//! E5: Miri as a second, hook-free deterministic simulator. One Miri seed = one schedule and one
//! choice of weak-memory behaviours. Scenarios are selected by argv (never by env).
//!
//!   mirisim par <rounds> <threads> <ops>     C10: real std threads on shared &World
//!   mirisim values                           C08: storage workload with heap-owning values
//!   mirisim faults                           C19: destructor panics inside clear / deletion / teardown
//!
//! A violated expectation panics (non-zero exit under Miri); UB (double free, use after free, data
//! race, read of uninitialised memory) is reported by Miri itself.

use specs::prelude::*;
use specs::storage::{BTreeStorage, DefaultVecStorage, DenseVecStorage, HashMapStorage, VecStorage};
use std::collections::HashSet;
use std::panic::{catch_unwind, AssertUnwindSafe};
use std::sync::atomic::{AtomicUsize, Ordering};
use std::sync::{Arc, Mutex};

// ---- heap-owning instrumented value: a second drop is a double free, a stale read a use-after-free

static PANIC_ON: AtomicUsize = AtomicUsize::new(0);
static LIVE: AtomicUsize = AtomicUsize::new(0);

#[derive(Debug)]
pub struct Boxed(Box<u64>);

impl Boxed {
    fn new(v: u64) -> Self {
        LIVE.fetch_add(1, Ordering::SeqCst);
        Boxed(Box::new(v))
    }
}

impl Default for Boxed {
    fn default() -> Self {
        Boxed::new(0)
    }
}

impl Drop for Boxed {
    fn drop(&mut self) {
        LIVE.fetch_sub(1, Ordering::SeqCst);
        let v = *self.0;
        if v != 0 && PANIC_ON.load(Ordering::SeqCst) as u64 == v && !std::thread::panicking() {
            PANIC_ON.store(0, Ordering::SeqCst);
            panic!("injected destructor fault");
        }
    }
}

macro_rules! comp {
    ($n:ident, $s:ty) => {
        #[derive(Debug, Default)]
        pub struct $n(pub Boxed);
        impl Component for $n {
            type Storage = $s;
        }
    };
}
comp!(BVec, VecStorage<Self>);
comp!(BDense, DenseVecStorage<Self>);
comp!(BDefault, DefaultVecStorage<Self>);
comp!(BHash, HashMapStorage<Self>);
comp!(BBTree, BTreeStorage<Self>);

// ---- C10: concurrent create / delete / lazy on real threads

fn xorshift(x: &mut u64) -> u64 {
    *x ^= *x << 13;
    *x ^= *x >> 7;
    *x ^= *x << 17;
    *x
}

fn par(rounds: usize, threads: usize, ops: usize) {
    let mut world = World::new();
    world.register::<BVec>();
    let mut initial: Vec<Entity> = world.create_iter().take(4).collect();
    // a short free list so that poppers contend for it
    world.delete_entities(&initial[2..]).unwrap();
    initial.truncate(2);
    world.maintain();
    let mut alive: HashSet<Entity> = initial.iter().copied().collect();
    let mut ever: HashSet<Entity> = alive.clone();
    for round in 0..rounds {
        let created: Mutex<Vec<Entity>> = Mutex::new(vec![]);
        let deleted: Mutex<Vec<Entity>> = Mutex::new(vec![]);
        let log: Arc<Mutex<Vec<usize>>> = Arc::new(Mutex::new(vec![]));
        let queued = AtomicUsize::new(0);
        let pre: Vec<Entity> = alive.iter().copied().collect();
        {
            let w = &world;
            std::thread::scope(|s| {
                for t in 0..threads {
                    let created = &created;
                    let deleted = &deleted;
                    let log = log.clone();
                    let queued = &queued;
                    let pre = &pre;
                    s.spawn(move || {
                        let ents = w.entities();
                        let lazy = w.read_resource::<LazyUpdate>();
                        let mut x = (round as u64 + 1) * 7919 + t as u64 * 104729 + 1;
                        let mut mine: Vec<Entity> = vec![];
                        for _ in 0..ops {
                            match xorshift(&mut x) % 5 {
                                0 | 1 => {
                                    let e = ents.create();
                                    assert!(ents.is_alive(e), "not alive for its creator: {:?}", e);
                                    mine.push(e);
                                    created.lock().unwrap().push(e);
                                }
                                2 => {
                                    // delete one of my own or a pre-existing entity
                                    let e = if !mine.is_empty() && xorshift(&mut x) % 2 == 0 {
                                        mine[xorshift(&mut x) as usize % mine.len()]
                                    } else if !pre.is_empty() {
                                        pre[xorshift(&mut x) as usize % pre.len()]
                                    } else {
                                        continue;
                                    };
                                    ents.delete(e).expect("deletion request for a live handle failed");
                                    deleted.lock().unwrap().push(e);
                                }
                                3 => {
                                    let id = queued.fetch_add(1, Ordering::SeqCst);
                                    let log = log.clone();
                                    lazy.exec(move |_w| log.lock().unwrap().push(id));
                                }
                                _ => {
                                    let seen: Vec<Entity> = (&*ents).join().collect();
                                    for e in &mine {
                                        assert!(seen.contains(e), "join misses own creation {:?}", e);
                                    }
                                }
                            }
                        }
                    });
                }
            });
        }
        let created = created.into_inner().unwrap();
        let deleted = deleted.into_inner().unwrap();
        for e in &created {
            assert!(ever.insert(*e), "handle returned twice: {:?}", e);
        }
        let mut idx = HashSet::new();
        for e in created.iter().chain(pre.iter()) {
            assert!(idx.insert(e.id()), "two not-yet-dead entities share index {}", e.id());
        }
        world.maintain();
        for e in &created {
            alive.insert(*e);
        }
        for e in &deleted {
            alive.remove(e);
        }
        let now: HashSet<Entity> = (&world.entities()).join().collect();
        assert_eq!(now, alive, "alive set after maintain != initial + created - deleted");
        let mut l = log.lock().unwrap().clone();
        l.sort();
        let n = queued.load(Ordering::SeqCst);
        assert_eq!(l, (0..n).collect::<Vec<_>>(), "queued actions did not run exactly once");
    }
}

// ---- C08: value conservation on all storage kinds (no faults). One world for everything:
// `World::new()` costs seconds under Miri.

fn new_world() -> World {
    let mut world = World::new();
    world.register::<BVec>();
    world.register::<BDense>();
    world.register::<BDefault>();
    world.register::<BHash>();
    world.register::<BBTree>();
    world
}

fn values_one<C: Component + std::fmt::Debug + Send + Sync>(world: &mut World, mk: fn(u64) -> C)
where
    C::Storage: Default,
{
    let es: Vec<Entity> = world.create_iter().take(6).collect();
    {
        let mut s = world.write_storage::<C>();
        for (i, e) in es.iter().enumerate() {
            if i != 3 {
                s.insert(*e, mk(10 + i as u64)).unwrap();
            }
        }
        // overwrite, remove, entry, get_mut
        drop(s.insert(es[0], mk(20)).unwrap());
        drop(s.remove(es[1]));
        let _ = s.entry(es[3]).unwrap().or_insert_with(|| mk(30));
        let _ = s.get_mut(es[2]);
    }
    world.delete_entity(es[2]).unwrap();
    // reuse the index: the new entity must not see the old component
    let n = world.create_entity().build();
    assert!(world.read_storage::<C>().get(n).is_none());
    world.delete_entities(&[es[4], es[2]]).unwrap_err();
    {
        let mut s = world.write_storage::<C>();
        let _: Vec<C> = s.drain().join().take(1).collect();
        s.clear();
        s.insert(es[0], mk(40)).unwrap();
    }
    // a lazy insertion stays queued: the world is dropped mid-frame at the end
    world.read_resource::<LazyUpdate>().insert(es[0], mk(50));
    world.delete_all();
}

fn values() {
    let mut world = new_world();
    values_one::<BVec>(&mut world, |v| BVec(Boxed::new(v)));
    values_one::<BDense>(&mut world, |v| BDense(Boxed::new(v)));
    values_one::<BDefault>(&mut world, |v| BDefault(Boxed::new(v)));
    values_one::<BHash>(&mut world, |v| BHash(Boxed::new(v)));
    values_one::<BBTree>(&mut world, |v| BBTree(Boxed::new(v)));
    drop(world);
    assert_eq!(LIVE.load(Ordering::SeqCst), 0, "values leaked without any destructor panic");
}

// ---- C19: destructor panics (all scenarios in one world; the teardown fault uses its own)

fn faults_one<C: Component + std::fmt::Debug>(world: &mut World, base: u64, mk: fn(u64) -> C, peek: fn(&C) -> u64, op: usize, victim: u64)
where
    C::Storage: Default,
{
    world.delete_all();
    let es: Vec<Entity> = world.create_iter().take(4).collect();
    {
        let mut s = world.write_storage::<C>();
        for (i, e) in es.iter().enumerate() {
            s.insert(*e, mk(base + 1 + i as u64)).unwrap();
        }
    }
    PANIC_ON.store((base + victim) as usize, Ordering::SeqCst);
    let r = catch_unwind(AssertUnwindSafe(|| match op {
        0 => world.write_storage::<C>().clear(),
        1 => world.delete_entities(&es).unwrap(),
        2 => world.delete_all(),
        _ => {
            for e in &es {
                world.entities().delete(*e).unwrap();
            }
            world.maintain();
        }
    }));
    let fired = PANIC_ON.swap(0, Ordering::SeqCst) == 0;
    assert!(r.is_err() == fired, "panic did not propagate as expected");
    // every lookup must touch only live memory (Miri checks) and the world stays usable
    {
        let s = world.read_storage::<C>();
        let ents = world.entities();
        let mut sum = 0;
        for (_e, c) in (&ents, &s).join() {
            sum += peek(c);
        }
        for e in &es {
            if let Some(c) = s.get(*e) {
                sum += peek(c);
            }
        }
        std::hint::black_box(sum);
    }
    let n = world.create_entity().build();
    world.write_storage::<C>().insert(n, mk(base + 99)).unwrap();
    assert_eq!(world.read_storage::<C>().get(n).map(peek), Some(base + 99));
}

fn faults() {
    let mut world = new_world();
    let mut base = 1000u64;
    for op in 0..4 {
        for victim in 1..=4u64 {
            faults_one::<BVec>(&mut world, base, |v| BVec(Boxed::new(v)), |c| *c.0 .0, op, victim);
            base += 100;
            faults_one::<BDense>(&mut world, base, |v| BDense(Boxed::new(v)), |c| *c.0 .0, op, victim);
            base += 100;
            faults_one::<BDefault>(&mut world, base, |v| BDefault(Boxed::new(v)), |c| *c.0 .0, op, victim);
            base += 100;
            faults_one::<BHash>(&mut world, base, |v| BHash(Boxed::new(v)), |c| *c.0 .0, op, victim);
            base += 100;
            faults_one::<BBTree>(&mut world, base, |v| BBTree(Boxed::new(v)), |c| *c.0 .0, op, victim);
            base += 100;
        }
    }
    // teardown with a panicking destructor
    world.delete_all();
    let es: Vec<Entity> = world.create_iter().take(3).collect();
    for (i, e) in es.iter().enumerate() {
        world.write_storage::<BVec>().insert(*e, BVec(Boxed::new(900_000 + i as u64))).unwrap();
        world.write_storage::<BHash>().insert(*e, BHash(Boxed::new(900_100 + i as u64))).unwrap();
    }
    PANIC_ON.store(900_001, Ordering::SeqCst);
    let _ = catch_unwind(AssertUnwindSafe(move || drop(world)));
    PANIC_ON.store(0, Ordering::SeqCst);
}

fn main() {
    let args: Vec<String> = std::env::args().skip(1).collect();
    std::panic::set_hook(Box::new(|info| {
        let msg = info.to_string();
        if !msg.contains("injected destructor fault") {
            eprintln!("{}", msg);
        }
    }));
    match args.first().map(|s| s.as_str()) {
        Some("par") => {
            let g = |i: usize, d: usize| args.get(i).and_then(|s| s.parse().ok()).unwrap_or(d);
            par(g(1, 2), g(2, 2), g(3, 4));
        }
        Some("values") => values(),
        Some("faults") => faults(),
        _ => {
            eprintln!("usage: mirisim par <rounds> <threads> <ops> | values | faults");
            std::process::exit(2);
        }
    }
    println!("ok");
}
