pub mod baton;
pub mod comps;
pub mod dispatchsim;
pub mod engine;
pub mod joinsim;
pub mod ledger;
pub mod plans;
pub mod rng;
pub mod runner;
pub mod savesim;
pub mod simclock;
pub mod twin;
pub mod util;
pub mod wcase;
pub mod wengine;
pub mod wexec;
pub mod wfault;
pub mod wgen;
pub mod wmodel;
pub mod wpar;
pub mod wrun;
pub mod wscript;
pub mod wstorage;

pub fn all_engines() -> Vec<Box<dyn engine::Engine>> {
    vec![Box::new(wengine::WorldSim), Box::new(joinsim::JoinSim), Box::new(dispatchsim::DispatchSim), Box::new(savesim::SaveSim), Box::new(twin::Twin)]
}

fn usage() -> i32 {
    eprintln!(
        "usage:\n  dst check <property> <quick|thorough>\n  dst check <property> --replay <file>\n  dst replay <file> [--quiet]\n  dst explore <engine> <profile> <runs> [base-seed]   (prints violation classes; no verdict)\n  dst selftest [runs]"
    );
    2
}

fn main() {
    util::install_quiet_panic_hook();
    let args: Vec<String> = std::env::args().skip(1).collect();
    let code = match args.first().map(|s| s.as_str()) {
        Some("worker") => runner::worker_main(&args[1..]),
        Some("replay") if args.len() >= 2 => {
            runner::replay_main(&args[1], args.iter().any(|a| a == "--quiet"))
        }
        Some("check") if args.len() >= 3 => {
            if args[2] == "--replay" && args.len() >= 4 {
                runner::replay_main(&args[3], false)
            } else {
                match plans::plan(&args[1]) {
                    Some(p) => runner::check_main(&args[1], &args[2], &p),
                    None => {
                        eprintln!("no check is registered for property {}", args[1]);
                        2
                    }
                }
            }
        }
        Some("explore") if args.len() >= 4 => explore(&args[1..]),
        Some("crashprobe") if args.len() >= 4 => {
            // re-executes one seed while announcing the operation in progress (crash attribution)
            util::enable_crashprobe();
            let eng = runner::engine(&args[1]);
            let _ = eng.run_seed(&args[2], args[3].parse().unwrap_or(0), "", false);
            println!("E done");
            0
        }
        Some("twinhash") if args.len() >= 3 => {
            let (t, _, _) = twin::transcript(&args[1], args[2].parse().unwrap_or(0));
            println!("{}", t);
            0
        }
        Some("clocktest") => {
            if simclock::selftest() {
                0
            } else {
                2
            }
        }
        Some("selftest") => plans::selftest(args.get(1).and_then(|s| s.parse().ok()).unwrap_or(2000)),
        _ => usage(),
    };
    std::process::exit(code);
}

/// Development aid: run seeds in-process and print the violation classes seen.
fn explore(args: &[String]) -> i32 {
    let eng = runner::engine(&args[0]);
    let prof = &args[1];
    let n: u64 = args[2].parse().unwrap_or(1000);
    let base: u64 = args.get(3).and_then(|s| s.parse().ok()).unwrap_or(1);
    let show = std::env::var("DST_SHOW").ok();
    let mut viol = std::collections::BTreeMap::new();
    let t = std::time::Instant::now();
    let mut counters = std::collections::BTreeMap::new();
    for i in 0..n {
        let seed = runner::run_seed_for(base, eng.name(), prof, i);
        let rep = eng.run_seed(prof, seed, "", false);
        for (k, v) in rep.counters {
            *counters.entry(k).or_insert(0u64) += v;
        }
        if let Some(v) = rep.violation {
            let key = (v.props.clone(), v.oracle.clone());
            let e = viol.entry(key).or_insert((0u64, String::new()));
            e.0 += 1;
            if e.1.is_empty() {
                e.1 = v.detail.clone();
                if show.as_deref() == Some(&v.oracle) || show.as_deref() == Some("all") {
                    let prop = v.props.first().cloned().unwrap_or_default();
                    let min = eng.shrink(rep.case.clone().unwrap(), &prop, &v.oracle);
                    println!("--- minimised case for {:?}/{}:\n{}", v.props, v.oracle, serde_json::to_string(&min).unwrap());
                    let r2 = eng.replay(&min, &prop);
                    println!("--- {:?}", r2.violation);
                }
            }
        }
    }
    println!("{} runs in {:?}", n, t.elapsed());
    if std::env::var("DST_COUNTERS").is_ok() {
        for (k, v) in &counters {
            println!("  {} = {}", k, v);
        }
    }
    for (k, v) in viol {
        println!("{:?}: {} e.g. {}", k, v.0, v.1);
    }
    0
}
