//! E6 twin: single-threaded determinism (C20). For every seed the full transcript of a history
//! (handles returned, operation results, join items in iteration order, event streams, serialised
//! bytes) is computed twice in the same process - on two worlds built one after the other with a
//! seeded amount of unrelated heap allocation in between (different addresses, different hasher
//! instances) - and, by the runner, once more in a fresh process at a different worker count
//! (different address-space layout, different process-wide hash seeds). The second in-process
//! execution additionally runs under a simulated clock that jumps forward at every read. All
//! hashes must agree.

use crate::engine::{Engine, Report, Viol};
use crate::rng::{mix, Rng};
use std::collections::BTreeMap;

pub struct Twin;

/// the transcript hash of one execution of `seed` (also used by `dst twinhash` in a child process)
/// the explicit history behind a seed, for evidence samples
pub fn case_of(profile: &str, seed: u64) -> serde_json::Value {
    match profile {
        "save" => serde_json::to_value(crate::savesim::gen_case(seed)).unwrap(),
        "faults" => serde_json::to_value(crate::wrun::generate_and_run("faults", seed).0).unwrap(),
        "bulkhuge" => serde_json::json!({"profile": "bulkhuge", "note": "history omitted (thousands of handles); regenerate from the seed"}),
        _ => serde_json::to_value(crate::wrun::generate_and_run("single", seed).0).unwrap(),
    }
}

pub fn transcript(profile: &str, seed: u64) -> (u64, Option<Viol>, BTreeMap<String, u64>) {
    match profile {
        "save" => {
            let c = crate::savesim::gen_case(seed);
            let o = crate::savesim::run_case(&c);
            let mut t = crate::rng::TraceHash(o.trace);
            if let Some(v) = &o.violation {
                t.add_str(&v.oracle);
                t.add_str(&v.detail);
            }
            let mut c = BTreeMap::new();
            c.insert("ops".to_string(), o.stats.ops);
            c.insert("serialisations_in_transcript".to_string(), o.stats.saves_ok);
            (t.0, o.violation, c)
        }
        "faults" => {
            // the whole fault enumeration of one history: what an earlier world did under a caught
            // destructor panic must not leak into a later world
            use crate::engine::Engine;
            let rep = crate::wengine::WorldSim.run_seed("faults", seed, "C20", false);
            let mut t = crate::rng::TraceHash(rep.trace_hash);
            if let Some(v) = &rep.violation {
                t.add_str(&v.oracle);
                t.add_str(&v.detail);
            }
            let mut c = BTreeMap::new();
            c.insert("ops".to_string(), rep.counters.get("ops").copied().unwrap_or(0));
            c.insert(
                "fault.destructor_panic.fired".to_string(),
                rep.counters.get("fault.destructor_panic.fired").copied().unwrap_or(0),
            );
            (t.0, rep.violation, c)
        }
        "bulkhuge" => {
            let (_case, out) = crate::wrun::generate_and_run("bulkhuge", seed);
            let mut c = BTreeMap::new();
            c.insert("ops".to_string(), out.stats.ops);
            c.insert("handles_in_transcript".to_string(), out.stats.creations);
            c.insert("batch_deletions_failed_partway".to_string(), out.stats.batch_failures);
            (
                out.trace_hash,
                out.violation.map(|v| Viol {
                    props: v.props,
                    oracle: v.oracle,
                    detail: v.detail,
                }),
                c,
            )
        }
        _ => {
            let (_case, out) = crate::wrun::generate_and_run("single", seed);
            let mut c = BTreeMap::new();
            c.insert("ops".to_string(), out.stats.ops);
            c.insert("events_in_transcript".to_string(), out.stats.events_checked);
            c.insert("handles_in_transcript".to_string(), out.stats.creations);
            c.insert("maintains(logical_frames)".to_string(), out.stats.maintains);
            (
                out.trace_hash,
                out.violation.map(|v| Viol {
                    props: v.props,
                    oracle: v.oracle,
                    detail: v.detail,
                }),
                c,
            )
        }
    }
}

fn twin(profile: &str, seed: u64, want_case: bool) -> Report {
    let (t1, v1, mut counters) = transcript(profile, seed);
    // (in crash-probe mode the engines underneath announce the operation in progress; a crash
    // anywhere is also a determinism matter only if it is not reproducible, which the runner sees)
    // unrelated heap traffic: shifts addresses and advances per-instance hasher keys
    let mut r = Rng::new(mix(&[seed, 0x7717]));
    let mut junk: Vec<Vec<u8>> = vec![];
    let mut maps: Vec<std::collections::HashMap<u64, u64>> = vec![];
    for _ in 0..r.range(1, 40) {
        junk.push(vec![0u8; r.range(1, 5000) as usize]);
        let mut m = std::collections::HashMap::new();
        m.insert(r.next_u64(), 1);
        maps.push(m);
    }
    // the second execution also runs under the simulated clock: every clock read on this thread
    // jumps forward by a seeded amount (milliseconds to a day), see simclock.rs
    let clock = crate::simclock::simulate(mix(&[seed, 0xC10C]));
    let (t2, _v2, _) = transcript(profile, seed);
    let (clock_reads, clock_jumps) = clock.counts();
    drop(clock);
    *counters.entry("clock_reads_by_code_under_simulated_clock".into()).or_insert(0) += clock_reads;
    *counters.entry("fault.clock_jump.applied".into()).or_insert(0) += clock_jumps;
    drop(junk);
    drop(maps);
    *counters.entry("twin_executions".into()).or_insert(0) += 2;
    let violation = if t1 != t2 {
        Some(Viol {
            props: vec!["C20".into()],
            oracle: "same-process-twin".into(),
            detail: format!(
                "two worlds driven through the same history in one process produced different transcripts ({:#x} vs {:#x}); first run's verdict: {:?}",
                t1,
                t2,
                v1.as_ref().map(|v| &v.oracle)
            ),
        })
    } else {
        None
    };
    let nontrivial = if counters.get("ops").copied().unwrap_or(0) >= 4 {
        Some(t1 ^ seed)
    } else {
        None
    };
    Report {
        violation,
        case: if want_case { Some(serde_json::json!({"history": case_of(profile, seed), "transcript_hash": t1})) } else { None },
        trace_hash: t1,
        counters,
        sets: BTreeMap::new(),
        nontrivial,
        executions: 2,
    }
}

impl Engine for Twin {
    fn name(&self) -> &'static str {
        "twin"
    }
    fn run_seed(&self, profile: &str, seed: u64, _prop: &str, want_case: bool) -> Report {
        twin(profile, seed, want_case)
    }
    fn replay(&self, _case: &serde_json::Value, _prop: &str) -> Report {
        Report::default()
    }
    fn shrink(&self, case: serde_json::Value, _prop: &str, _oracle: &str) -> serde_json::Value {
        case
    }
    fn rule(&self, profile: &str, _prop: &str) -> String {
        format!(
            "a case is one seeded single-threaded history ({}), executed twice in one process with unrelated heap allocation in between (the second time under a simulated, jumping clock) and once more in a different worker process at a different worker count; the transcript = every handle returned, every join's items in iteration order, every storage's (index, value) sequence, every event stream read{}; non-trivial: >= 4 operations; distinct: transcript hash",
            if profile == "save" { "savesim: two worlds, markers, save/load" } else { "worldsim profile `single`: all storage kinds incl. HashMapStorage / BTreeStorage / tracked, lazy updates, no parallel phases" },
            if profile == "save" { ", the serialised bytes" } else { "" }
        )
    }
    fn components(&self) -> serde_json::Value {
        serde_json::json!({
            "real": ["everything the worldsim / savesim engines run"],
            "stub": ["nothing is stubbed; the environment is varied instead: hasher instances and heap addresses (same process), process-wide hash seeds and address-space layout (fresh process), the clock (clock_gettime is answered by the simulator during the second execution: seeded forward jumps of 1 ms .. 1 day per read)"]
        })
    }
}
