//! E1 worldsim as an `Engine`: counters, non-triviality rules, minimisation.

use crate::baton::STAY;
use crate::comps::RegPath;
use crate::engine::{ddmin, Engine, Report, Viol};
use crate::wcase::*;
use crate::wexec::RunStats;
use crate::wrun::{generate_and_run, replay, Outcome};
use std::collections::BTreeMap;

pub struct WorldSim;

fn counters(st: &RunStats) -> BTreeMap<String, u64> {
    let mut c = BTreeMap::new();
    let mut put = |k: &str, v: u64| {
        if v > 0 {
            c.insert(k.to_string(), v);
        }
    };
    put("ops", st.ops);
    put("ops_skipped", st.skipped_ops);
    put("creations", st.creations);
    put("index_reuses", st.index_reuses);
    put("reuse_while_deferred_pending", st.reuse_while_deferred_pending);
    put("stale_probes", st.stale_probes);
    put("stale_probes_index_reoccupied", st.stale_probes_reoccupied);
    put("deletions_effective", st.deletions_effective);
    put("batch_deletions_failed_partway", st.batch_failures);
    put("maintains(logical_frames)", st.maintains);
    put("lazy_actions_run", st.lazy_run);
    put("lazy_nested_closures", st.lazy_nested);
    put("lazy_on_dead_target", st.lazy_on_dead_target);
    put("events_checked", st.events_checked);
    put("values_created", st.values_created);
    put("values_destroyed_by_specs", st.values_destroyed);
    put("values_returned_to_caller", st.values_returned);
    put("fault.destructor_panic.armed", st.faults_armed);
    put("fault.destructor_panic.fired", st.faults_fired);
    put("parallel_phases", st.par_phases);
    put("scheduler_steps", st.sched_steps);
    put("scheduler_switches", st.sched_switches);
    put("fault.crash_world_dropped_mid_frame", st.world_dropped_dirty);
    for (k, v) in &st.probes {
        put(&format!("probe.{}", k), *v);
    }
    for (k, v) in &st.buggify_fired {
        put(&format!("fault.buggify.{}", k), *v);
    }
    for (k, v) in &st.site_counts {
        put(&format!("yield.{}", k), *v);
    }
    c
}

fn nontrivial(prop: &str, st: &RunStats) -> bool {
    let p = |n: &str| st.probes.get(n).copied().unwrap_or(0);
    match prop {
        "C01" => st.index_reuses >= 1 && st.creations >= 2,
        "C02" => st.deletions_effective >= 1 && (st.maintains >= 1 || st.batch_failures >= 1),
        "C17" => st.index_reuses >= 1 && st.deletions_effective >= 2,
        "C03" => st.stale_probes_reoccupied >= 1,
        "C04" => st.ops >= 5 && st.values_created >= 2,
        "C05" => st.deletions_effective >= 1 && st.values_destroyed >= 1,
        "C08" => st.values_destroyed >= 1 && st.values_returned >= 1,
        "C09" => st.lazy_run >= 2 && st.maintains >= 1,
        "C10" => st.par_phases >= 1 && st.sched_switches >= 2,
        "C12" => st.events_checked >= 2,
        "C13" => p("restricted_items_visited") >= 1,
        "C19" => st.faults_fired >= 1,
        _ => st.ops >= 2,
    }
}

fn to_report(case: Option<&WCase>, out: Outcome, prop: &str) -> Report {
    let mut sets = BTreeMap::new();
    sets.insert("model_states".to_string(), out.stats.model_states.clone());
    sets.insert("interleavings".to_string(), out.stats.sched_hashes.clone());
    let nt = if nontrivial(prop, &out.stats) {
        Some(out.trace_hash)
    } else {
        None
    };
    Report {
        violation: out.violation.map(|v| Viol {
            props: v.props,
            oracle: v.oracle,
            detail: format!("{} [at op uid {}]", v.detail, v.at_uid),
        }),
        case: case.map(|c| serde_json::to_value(c).unwrap()),
        trace_hash: out.trace_hash,
        counters: counters(&out.stats),
        sets,
        nontrivial: nt,
        executions: 1,
    }
}

fn fails(case: &WCase, prop: &str, oracle: &str) -> bool {
    match replay(case).violation {
        Some(v) => v.oracle == oracle && v.props.iter().any(|p| p == prop),
        None => false,
    }
}

/// all one-element-smaller variants of the vectors inside an op
fn op_variants(k: &OpKind) -> Vec<OpKind> {
    let mut out = vec![];
    fn drop_each<T: Clone>(v: &[T]) -> Vec<Vec<T>> {
        (0..v.len())
            .map(|i| {
                let mut c = v.to_vec();
                c.remove(i);
                c
            })
            .collect()
    }
    match k {
        OpKind::ByRef(inner) => out.push((**inner).clone()),
        OpKind::CreateNow(c) => out.extend(drop_each(c).into_iter().map(OpKind::CreateNow)),
        OpKind::BuilderDropped(c) => out.extend(drop_each(c).into_iter().map(OpKind::BuilderDropped)),
        OpKind::BuilderUnwound(c) => {
            out.extend(drop_each(c).into_iter().map(OpKind::BuilderUnwound));
            out.push(OpKind::BuilderDropped(c.clone()));
        }
        OpKind::CreateIterNow(n) if *n > 1 => out.push(OpKind::CreateIterNow(n - 1)),
        OpKind::CreateIterDeferred(n) if *n > 1 => out.push(OpKind::CreateIterDeferred(n - 1)),
        OpKind::CreateDeferred { via, comps, dropped } => {
            out.extend(drop_each(comps).into_iter().map(|c| OpKind::CreateDeferred {
                via: *via,
                comps: c,
                dropped: *dropped,
            }));
            if comps.is_empty() && *via != Via::Entities && !*dropped {
                out.push(OpKind::CreateDeferred {
                    via: Via::Entities,
                    comps: vec![],
                    dropped: false,
                });
            }
        }
        OpKind::DeleteBatch(hs) if hs.len() > 1 => {
            out.extend(drop_each(hs).into_iter().map(OpKind::DeleteBatch))
        }
        OpKind::LazyInsertAll { slot, items } => out.extend(
            drop_each(items)
                .into_iter()
                .map(|i| OpKind::LazyInsertAll { slot: *slot, items: i }),
        ),
        OpKind::LazyExec { script, mutable } => {
            out.extend(drop_each(script).into_iter().map(|s| OpKind::LazyExec {
                script: s,
                mutable: *mutable,
            }));
            // flatten nested queues one level
            for (i, s) in script.iter().enumerate() {
                if let SOp::Queue(inner) = s {
                    for v in drop_each(inner) {
                        let mut sc = script.clone();
                        sc[i] = SOp::Queue(v);
                        out.push(OpKind::LazyExec {
                            script: sc,
                            mutable: *mutable,
                        });
                    }
                }
            }
        }
        OpKind::ChangeSet { pairs, consume } if pairs.len() > 1 => out.extend(
            drop_each(pairs).into_iter().map(|p| OpKind::ChangeSet {
                pairs: p,
                consume: *consume,
            }),
        ),
        OpKind::JoinMut { slot, lend, take, acts } => {
            out.extend(drop_each(acts).into_iter().map(|a| OpKind::JoinMut {
                slot: *slot,
                lend: *lend,
                take: *take,
                acts: a,
            }))
        }
        OpKind::RestrictShared { slot, take, acts } => {
            out.extend(drop_each(acts).into_iter().map(|a| OpKind::RestrictShared {
                slot: *slot,
                take: *take,
                acts: a,
            }))
        }
        OpKind::RestrictExcl { slot, take, acts, others } => {
            out.extend(drop_each(acts).into_iter().map(|a| OpKind::RestrictExcl {
                slot: *slot,
                take: *take,
                acts: a,
                others: others.clone(),
            }));
            out.extend(drop_each(others).into_iter().map(|o| OpKind::RestrictExcl {
                slot: *slot,
                take: *take,
                acts: acts.clone(),
                others: o,
            }));
        }
        OpKind::RestrictRead { slot, lend, take, others } => {
            out.extend(drop_each(others).into_iter().map(|o| OpKind::RestrictRead {
                slot: *slot,
                lend: *lend,
                take: *take,
                others: o,
            }))
        }
        _ => {}
    }
    out
}

pub fn shrink_case(mut case: WCase, prop: &str, oracle: &str) -> WCase {
    let mut budget: i64 = 3000;
    let test = |c: &WCase, budget: &mut i64| -> bool {
        if *budget <= 0 {
            return false;
        }
        *budget -= 1;
        fails(c, prop, oracle)
    };
    if !test(&case, &mut budget) {
        return case;
    }
    for _round in 0..3 {
        let before = serde_json::to_string(&case).unwrap().len();
        // (1) drop whole steps
        let cfg = case.cfg.clone();
        let (profile, seed) = (case.profile.clone(), case.seed);
        let final_fault = case.final_fault;
        let steps = ddmin(case.steps.clone(), |cand| {
            test(
                &WCase {
                    profile: profile.clone(),
                    seed,
                    cfg: cfg.clone(),
                    steps: cand.to_vec(),
                    final_fault,
                },
                &mut budget,
            )
        });
        case.steps = steps;
        // (2) configuration: narrow index space, plain registration path
        if case.cfg.prealloc > 0 {
            let mut c = case.clone();
            c.cfg.prealloc = 0;
            c.cfg.keep_every = 1;
            if test(&c, &mut budget) {
                case = c;
            }
        }
        for i in 0..case.cfg.slots.len() {
            if case.cfg.slots[i].1 != RegPath::Register {
                let mut c = case.clone();
                c.cfg.slots[i].1 = RegPath::Register;
                if test(&c, &mut budget) {
                    case = c;
                }
            }
        }
        if case.final_fault.is_some() {
            let mut c = case.clone();
            c.final_fault = None;
            if test(&c, &mut budget) {
                case = c;
            }
        }
        // (3) inside steps
        let mut i = 0;
        while i < case.steps.len() {
            match case.steps[i].clone() {
                Step::Op(op) => {
                    if op.fault.is_some() {
                        let mut c = case.clone();
                        if let Step::Op(o) = &mut c.steps[i] {
                            o.fault = None;
                        }
                        if test(&c, &mut budget) {
                            case = c;
                        }
                    }
                    let mut progress = true;
                    while progress {
                        progress = false;
                        let cur = match &case.steps[i] {
                            Step::Op(o) => o.clone(),
                            _ => break,
                        };
                        for v in op_variants(&cur.kind) {
                            let mut c = case.clone();
                            c.steps[i] = Step::Op(Op {
                                uid: cur.uid,
                                kind: v,
                                fault: cur.fault,
                            });
                            if test(&c, &mut budget) {
                                case = c;
                                progress = true;
                                break;
                            }
                        }
                    }
                }
                Step::Par(ph) => {
                    // drop tasks, then ops
                    let mut cur = ph.clone();
                    let mut t = 0;
                    while t < cur.tasks.len() {
                        if cur.tasks.len() > 1 {
                            let mut p2 = cur.clone();
                            p2.tasks.remove(t);
                            // the recorded schedule names task numbers: shift them
                            if let Some(r) = &mut p2.recorded {
                                r.choices = r
                                    .choices
                                    .iter()
                                    .filter(|&&c| c as usize != t)
                                    .map(|&c| if c != STAY && c as usize > t { c - 1 } else { c })
                                    .collect();
                            }
                            let mut c = case.clone();
                            c.steps[i] = Step::Par(p2.clone());
                            if test(&c, &mut budget) {
                                case = c;
                                cur = p2;
                                continue;
                            }
                        }
                        let mut o = 0;
                        while o < cur.tasks[t].len() {
                            let mut p2 = cur.clone();
                            p2.tasks[t].remove(o);
                            let mut c = case.clone();
                            c.steps[i] = Step::Par(p2.clone());
                            if test(&c, &mut budget) {
                                case = c;
                                cur = p2;
                            } else {
                                o += 1;
                            }
                        }
                        t += 1;
                    }
                    // buggify off
                    if !cur.baton.buggify.is_empty() {
                        let mut p2 = cur.clone();
                        p2.baton.buggify.clear();
                        if let Some(r) = &mut p2.recorded {
                            r.bugs.clear();
                        }
                        let mut c = case.clone();
                        c.steps[i] = Step::Par(p2.clone());
                        if test(&c, &mut budget) {
                            case = c;
                            cur = p2;
                        }
                    }
                    // simplify the schedule: remove context switches greedily
                    if let Some(rec) = cur.recorded.clone() {
                        let mut rec = rec;
                        // first try: no explicit schedule at all (run to completion in order)
                        let mut p2 = cur.clone();
                        p2.recorded = Some(crate::baton::Recorded {
                            choices: vec![],
                            bugs: rec.bugs.clone(),
                        });
                        let mut c = case.clone();
                        c.steps[i] = Step::Par(p2.clone());
                        if test(&c, &mut budget) {
                            case = c;
                        } else {
                            let mut j = 0;
                            while j < rec.choices.len() && budget > 0 {
                                if rec.choices[j] != STAY {
                                    let old = rec.choices[j];
                                    rec.choices[j] = STAY;
                                    let mut p3 = cur.clone();
                                    p3.recorded = Some(rec.clone());
                                    let mut c = case.clone();
                                    c.steps[i] = Step::Par(p3);
                                    if test(&c, &mut budget) {
                                        case = c;
                                    } else {
                                        rec.choices[j] = old;
                                    }
                                }
                                j += 1;
                            }
                            // trailing STAYs carry no information
                            while rec.choices.last() == Some(&STAY) {
                                rec.choices.pop();
                            }
                            let mut p3 = cur.clone();
                            p3.recorded = Some(rec);
                            let mut c = case.clone();
                            c.steps[i] = Step::Par(p3);
                            if test(&c, &mut budget) {
                                case = c;
                            }
                        }
                    }
                }
            }
            i += 1;
        }
        let after = serde_json::to_string(&case).unwrap().len();
        if after >= before {
            break;
        }
    }
    case
}

impl Engine for WorldSim {
    fn name(&self) -> &'static str {
        "worldsim"
    }

    fn run_seed(&self, profile: &str, seed: u64, prop: &str, want_case: bool) -> Report {
        let (case, out) = generate_and_run(profile, seed);
        let need = want_case || out.violation.is_some();
        if !case.cfg.faults || out.violation.is_some() {
            return to_report(if need { Some(&case) } else { None }, out, prop);
        }
        // Fault enumeration (C19): the fault-free execution above ran under the strict oracle;
        // now every destructor call the model predicted for every destroying operation (and for
        // the world teardown) is made to panic, one execution per (operation, call) pair.
        let sites = out.fault_sites.clone();
        let mut total = to_report(if need { Some(&case) } else { None }, out, prop);
        total.executions = 1;
        let mut pairs: Vec<(u32, u16)> = vec![];
        for (uid, n) in &sites {
            for j in 0..*n {
                pairs.push((*uid, j as u16));
            }
        }
        let cap = 48usize;
        let all = pairs.len();
        if pairs.len() > cap {
            // deterministic sample: always first and last call of every op, then a stride
            let mut keep: Vec<(u32, u16)> = vec![];
            for (uid, n) in &sites {
                keep.push((*uid, 0));
                if *n > 1 {
                    keep.push((*uid, (*n - 1) as u16));
                }
            }
            let stride = (pairs.len() / cap).max(1);
            for (i, p) in pairs.iter().enumerate() {
                if i % stride == (seed as usize % stride) && !keep.contains(p) {
                    keep.push(*p);
                }
            }
            keep.truncate(cap * 2);
            pairs = keep;
        }
        total.counters.insert("fault_sites_predicted".into(), all as u64);
        if all == pairs.len() && all > 0 {
            *total.counters.entry("histories_with_all_fault_points_enumerated".into()).or_insert(0) += 1;
        }
        let mut variants: Vec<WCase> = vec![];
        for (uid, j) in &pairs {
            let mut c = case.clone();
            if *uid == u32::MAX {
                c.final_fault = Some(*j);
            } else {
                for st in c.steps.iter_mut() {
                    if let Step::Op(o) = st {
                        if o.uid == *uid {
                            o.fault = Some(Fault { k: *j });
                        }
                    }
                }
            }
            variants.push(c);
        }
        // plus one multi-fault execution (a fault at a random subset of the sites, one after
        // the other - each disarms when it fires)
        if sites.len() >= 2 {
            let mut r = crate::rng::Rng::new(crate::rng::mix(&[seed, 0xFA17]));
            let mut c = case.clone();
            for st in c.steps.iter_mut() {
                if let Step::Op(o) = st {
                    if sites.iter().any(|s| s.0 == o.uid) && r.chance(1, 2) {
                        o.fault = Some(Fault { k: r.below(64) as u16 });
                    }
                }
            }
            if r.chance(1, 2) {
                c.final_fault = Some(r.below(64) as u16);
            }
            variants.push(c);
        }
        for c in variants {
            let o = replay(&c);
            total.executions += 1;
            let failed = o.violation.is_some();
            let rep = to_report(if failed { Some(&c) } else { None }, o, prop);
            for (k, v) in rep.counters {
                *total.counters.entry(k).or_insert(0) += v;
            }
            for (k, v) in rep.sets {
                total.sets.entry(k).or_default().extend(v);
            }
            total.trace_hash ^= rep.trace_hash.rotate_left(7);
            if rep.nontrivial.is_some() && total.nontrivial.is_none() {
                total.nontrivial = rep.nontrivial;
            }
            if failed {
                total.violation = rep.violation;
                total.case = rep.case;
                break;
            }
        }
        total
    }

    fn replay(&self, case: &serde_json::Value, prop: &str) -> Report {
        let c: WCase = match serde_json::from_value(case.clone()) {
            Ok(c) => c,
            Err(e) => {
                return Report {
                    violation: Some(Viol {
                        props: vec![],
                        oracle: "harness".into(),
                        detail: format!("cannot parse case: {}", e),
                    }),
                    ..Default::default()
                }
            }
        };
        let out = replay(&c);
        to_report(Some(&c), out, prop)
    }

    fn shrink(&self, case: serde_json::Value, prop: &str, oracle: &str) -> serde_json::Value {
        let c: WCase = serde_json::from_value(case).unwrap();
        serde_json::to_value(shrink_case(c, prop, oracle)).unwrap()
    }

    fn rule(&self, _profile: &str, prop: &str) -> String {
        let r = match prop {
            "C01" => "history in which at least one index was reused (generation > 1) and >= 2 entities were created",
            "C02" => "history with >= 1 effective deletion and (>= 1 maintain or >= 1 batch deletion failing part-way)",
            "C17" => "history with >= 1 index reuse and >= 2 effective deletions",
            "C03" => "history in which a dead handle whose index was re-occupied by a newer entity was sent through a handle-taking access path",
            "C04" => "history with >= 5 operations and >= 2 component values created",
            "C05" => "history with >= 1 effective deletion that destroyed >= 1 component value",
            "C08" => "history in which specs destroyed >= 1 value and returned >= 1 value to the caller",
            "C09" => "history in which >= 2 lazy actions ran in >= 1 maintain",
            "C10" => "history with >= 1 parallel phase and >= 2 context switches inside it",
            "C12" => ">= 2 events were read from a tracked storage's channel and compared",
            "C13" => ">= 1 restricted-storage item was visited",
            "C19" => ">= 1 injected destructor panic actually fired",
            _ => ">= 2 operations",
        };
        format!(
            "a case is one seeded history (operations generated from the seed and the reference model's state, schedule and faults from the same seed); non-trivial: {}; distinct: different hash over (handles returned, model state after every step, schedule decisions)",
            r
        )
    }

    fn components(&self) -> serde_json::Value {
        serde_json::json!({
            "real": ["all of /repo/src on the exercised paths (world, entity allocator, storages, joins, lazy updates, change sets)", "shred World/Fetch/MetaTable", "hibitset", "shrev event channels", "crossbeam SegQueue (as an atomic step)"],
            "stub": ["OS thread scheduler (replaced by the baton scheduler: one simulated task runs at a time, the seeded scheduler picks the next at every cfg(specs_verif) yield point)", "rayon (not used by this engine)"]
        })
    }
}
