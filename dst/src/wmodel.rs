//! E1 worldsim: the reference model - a deliberately boring in-memory ECS.
//!
//! The model is *handle-agnostic*: it never predicts which index or generation specs will choose.
//! It takes the handle the real call returned, checks it against the property, then records it.

use crate::comps::{Ev, Kind, V};
use crate::wcase::{SOp, H};
use specs::Entity;
use std::collections::{BTreeMap, BTreeSet, HashMap, VecDeque};

#[derive(Clone, Debug)]
pub struct HInfo {
    pub ent: Entity,
    /// symbolic name of this handle in the operation language
    pub href: H,
    pub dead: bool,
    /// made persistent by `maintain` (or created with exclusive access)
    pub merged: bool,
    /// deferred deletion requested, takes effect at the next `maintain`
    pub pending_kill: bool,
}

#[derive(Clone, Debug)]
pub enum LazyAct {
    Insert { slot: u8, hn: usize, v: V },
    InsertAll { slot: u8, items: Vec<(usize, V)> },
    Remove { slot: u8, hn: usize },
    Exec { cid: u32, script: Vec<SOp>, depth: u8 },
    /// queued from a parallel task: only logs its id
    ParLog { cid: u32 },
}

/// expected event: `must` = the property demands it; otherwise it may or may not appear
#[derive(Clone, Copy, Debug, PartialEq, Eq)]
pub struct ExpEv {
    pub ev: Ev,
    pub must: bool,
}

#[derive(Clone, Debug, Default)]
pub struct TrackModel {
    pub reader: bool,
    pub emission: bool,
    /// emission was switched off at some point since the reader was registered
    pub emission_was_off: bool,
    /// membership when the reader was registered, updated by replaying received events
    pub replayed: BTreeSet<u32>,
    /// false once a bulk `clear()` made replay meaningless (by design it emits nothing)
    pub replay_valid: bool,
    /// expected events since the last channel read
    pub expected: Vec<ExpEv>,
}

#[derive(Clone, Debug)]
pub struct Model {
    pub kinds: Vec<Kind>,
    pub hs: Vec<HInfo>,
    pub by_ent: HashMap<(u32, i32), usize>,
    /// not-yet-dead occupant (handle number) of each index
    pub occ: BTreeMap<u32, usize>,
    pub peak: usize,
    pub comps: Vec<BTreeMap<u32, V>>,
    pub lazy: VecDeque<LazyAct>,
    pub track: Vec<TrackModel>,
    /// values the model expects specs to have destroyed during the current op
    pub exp_destroyed: Vec<u64>,
    /// ZST components the model expects specs to have destroyed during the current op
    pub exp_zst_destroyed: u64,
    /// number of indices ever handed out that are currently free (for statistics only)
    pub reuse_count: u64,
}

impl Model {
    pub fn new(kinds: Vec<Kind>) -> Self {
        let n = kinds.len();
        Model {
            kinds,
            hs: vec![],
            by_ent: HashMap::new(),
            occ: BTreeMap::new(),
            peak: 0,
            comps: vec![BTreeMap::new(); n],
            lazy: VecDeque::new(),
            track: (0..n)
                .map(|_| TrackModel {
                    emission: true,
                    replay_valid: true,
                    ..Default::default()
                })
                .collect(),
            exp_destroyed: vec![],
            exp_zst_destroyed: 0,
            reuse_count: 0,
        }
    }

    pub fn alive(&self, hn: usize) -> bool {
        !self.hs[hn].dead
    }

    pub fn live_count(&self) -> usize {
        self.occ.len()
    }

    /// not-yet-dead handle numbers in ascending index order
    pub fn live_handles(&self) -> Vec<usize> {
        self.occ.values().copied().collect()
    }

    pub fn lookup(&self, e: Entity) -> Option<usize> {
        self.by_ent.get(&(e.id(), e.gen().id())).copied()
    }

    /// C01 / C17 checks for a freshly returned handle; records it. Returns Err(description).
    pub fn check_new_handle(&self, e: Entity) -> Result<(), (&'static str, String)> {
        if e.gen().id() <= 0 {
            return Err((
                "C01",
                format!("creation returned a handle with a dead generation: {:?}", e),
            ));
        }
        if self.by_ent.contains_key(&(e.id(), e.gen().id())) {
            return Err((
                "C01",
                format!("creation returned handle {:?}, which was returned before", e),
            ));
        }
        if let Some(&o) = self.occ.get(&e.id()) {
            return Err((
                "C01",
                format!(
                    "creation returned {:?} while index {} is still occupied by not-yet-dead {:?}",
                    e,
                    e.id(),
                    self.hs[o].ent
                ),
            ));
        }
        Ok(())
    }

    /// C17: index < running peak of simultaneously not-yet-dead entities (counting the new one)
    pub fn check_index_bound(&self, e: Entity, in_flight: usize) -> Result<(), String> {
        let peak = self.peak.max(self.live_count() + 1 + in_flight);
        if (e.id() as usize) >= peak {
            return Err(format!(
                "new entity {:?} got index {} although at most {} entities were ever simultaneously not yet dead (now {} + this one)",
                e,
                e.id(),
                peak,
                self.live_count() + in_flight,
            ));
        }
        Ok(())
    }

    pub fn add_handle(&mut self, e: Entity, merged: bool, href: H) -> usize {
        let hn = self.hs.len();
        self.hs.push(HInfo {
            ent: e,
            href,
            dead: false,
            merged,
            pending_kill: false,
        });
        self.by_ent.insert((e.id(), e.gen().id()), hn);
        self.occ.insert(e.id(), hn);
        if self.occ.len() > self.peak {
            self.peak = self.occ.len();
        }
        hn
    }

    fn push_ev(&mut self, slot: usize, ev: Ev, must: bool) {
        let t = &mut self.track[slot];
        if t.emission && t.reader {
            t.expected.push(ExpEv { ev, must });
        }
    }

    /// The entity's deletion takes effect now: dead, components purged everywhere.
    pub fn kill(&mut self, hn: usize) {
        let idx = self.hs[hn].ent.id();
        debug_assert!(!self.hs[hn].dead);
        self.hs[hn].dead = true;
        self.hs[hn].pending_kill = false;
        self.occ.remove(&idx);
        for s in 0..self.comps.len() {
            if let Some(v) = self.comps[s].remove(&idx) {
                self.note_destroyed(s, v);
                self.push_ev(s, Ev::Rem(idx), true);
            }
        }
    }

    /// after an injected fault: the entity is dead, but its components are whatever the real
    /// storages still report (the interrupted purge may leave orphans)
    pub fn kill_entity_only(&mut self, hn: usize) {
        let idx = self.hs[hn].ent.id();
        self.hs[hn].dead = true;
        self.hs[hn].pending_kill = false;
        self.occ.remove(&idx);
    }

    pub fn note_destroyed(&mut self, slot: usize, v: V) {
        if self.kinds[slot].zst() {
            self.exp_zst_destroyed += 1;
        } else {
            self.exp_destroyed.push(v.0);
        }
    }

    /// `insert` semantics on the model. Returns Ok(replaced) or Err(()) when refused.
    pub fn insert(&mut self, slot: usize, hn: usize, v: V) -> Result<Option<V>, ()> {
        if self.hs[hn].dead {
            self.note_destroyed(slot, v);
            return Err(());
        }
        let idx = self.hs[hn].ent.id();
        let old = self.comps[slot].insert(idx, v);
        if old.is_some() {
            self.push_ev(slot, Ev::Mod(idx), true);
        } else {
            self.push_ev(slot, Ev::Ins(idx), true);
        }
        Ok(old)
    }

    pub fn get(&self, slot: usize, hn: usize) -> Option<V> {
        if self.hs[hn].dead {
            return None;
        }
        self.comps[slot].get(&self.hs[hn].ent.id()).copied()
    }

    pub fn remove(&mut self, slot: usize, hn: usize) -> Option<V> {
        if self.hs[hn].dead {
            return None;
        }
        let idx = self.hs[hn].ent.id();
        let r = self.comps[slot].remove(&idx);
        if r.is_some() {
            self.push_ev(slot, Ev::Rem(idx), true);
        }
        r
    }

    /// mutable access to an existing component was handed out.
    /// `eager_must`: for the eager wrapper, is the event demanded (written/touched) or merely allowed
    pub fn mut_access(&mut self, slot: usize, idx: u32, touched: bool, write: Option<i64>) {
        if let Some(p) = write {
            if !self.kinds[slot].zst() {
                if let Some(v) = self.comps[slot].get_mut(&idx) {
                    v.1 = p;
                }
            }
        }
        let used = touched || write.is_some();
        match self.kinds[slot].wrap {
            crate::comps::Wrap::Plain => {}
            crate::comps::Wrap::Flagged => self.push_ev(slot, Ev::Mod(idx), used),
            crate::comps::Wrap::DerefFlagged => {
                if used {
                    self.push_ev(slot, Ev::Mod(idx), true)
                }
            }
        }
    }

    /// write through a slice (no event: untracked storages only)
    pub fn raw_write(&mut self, slot: usize, idx: u32, p: i64) {
        if let Some(v) = self.comps[slot].get_mut(&idx) {
            v.1 = p;
        }
    }

    pub fn clear_slot(&mut self, slot: usize) {
        let vals: Vec<V> = self.comps[slot].values().copied().collect();
        for v in vals {
            self.note_destroyed(slot, v);
        }
        self.comps[slot].clear();
        self.track[slot].replay_valid = false;
    }

    /// the merge part of `maintain`: deferred creations become persistent, deferred deletions
    /// take effect (ascending index order), components purged.
    pub fn merge(&mut self) {
        let live: Vec<usize> = self.live_handles();
        for hn in &live {
            self.hs[*hn].merged = true;
        }
        for hn in live {
            if self.hs[hn].pending_kill {
                self.kill(hn);
            }
        }
    }

    /// the members of `slot` that a join with the entities resource visits: ascending index,
    /// occupant not yet dead (orphans left behind by an interrupted purge are skipped)
    pub fn joined(&self, slot: usize) -> Vec<(u32, V)> {
        self.comps[slot]
            .iter()
            .filter(|(i, _)| self.occ.contains_key(i))
            .map(|(i, v)| (*i, *v))
            .collect()
    }

    /// remove by index regardless of the occupant (drain works on the raw masked storage)
    pub fn remove_raw(&mut self, slot: usize, idx: u32) -> Option<V> {
        let r = self.comps[slot].remove(&idx);
        if r.is_some() {
            self.push_ev(slot, Ev::Rem(idx), true);
        }
        r
    }

    pub fn take_expected_events(&mut self, slot: usize) -> Vec<ExpEv> {
        std::mem::take(&mut self.track[slot].expected)
    }

    /// every value the model believes is inside the world (storages + lazy queue)
    pub fn values_in_world(&self) -> BTreeSet<u64> {
        let mut s = BTreeSet::new();
        for (i, m) in self.comps.iter().enumerate() {
            if !self.kinds[i].zst() {
                for v in m.values() {
                    s.insert(v.0);
                }
            }
        }
        for a in &self.lazy {
            match a {
                LazyAct::Insert { slot, v, .. } => {
                    if !self.kinds[*slot as usize].zst() {
                        s.insert(v.0);
                    }
                }
                LazyAct::InsertAll { slot, items } => {
                    if !self.kinds[*slot as usize].zst() {
                        for (_, v) in items {
                            s.insert(v.0);
                        }
                    }
                }
                _ => {}
            }
        }
        s
    }

    pub fn zst_in_world(&self) -> u64 {
        let mut n = 0;
        for (i, m) in self.comps.iter().enumerate() {
            if self.kinds[i].zst() {
                n += m.len() as u64;
            }
        }
        for a in &self.lazy {
            match a {
                LazyAct::Insert { slot, .. } if self.kinds[*slot as usize].zst() => n += 1,
                LazyAct::InsertAll { slot, items } if self.kinds[*slot as usize].zst() => {
                    n += items.len() as u64
                }
                _ => {}
            }
        }
        n
    }

    /// hash of the abstract state (for "distinct model states reached")
    pub fn state_hash(&self) -> u64 {
        let mut h = crate::rng::TraceHash::default();
        for (idx, &hn) in &self.occ {
            let i = &self.hs[hn];
            h.add(*idx as u64);
            h.add((i.merged as u64) | ((i.pending_kill as u64) << 1));
        }
        h.add(0xFFFF);
        for m in &self.comps {
            for (idx, v) in m {
                h.add(*idx as u64);
                h.add(v.1 as u64);
            }
            h.add(0xFFFE);
        }
        h.add(self.lazy.len() as u64);
        h.0
    }
}

/// closure ids: top-level = op uid; nested get their own namespace (flag | uid<<8 | j1<<4 | j2)
pub fn nested_cid(parent: u32, j: usize) -> u32 {
    const FLAG: u32 = 0x8000_0000;
    let j = (j as u32 + 1) & 0xF;
    if parent & FLAG == 0 {
        FLAG | (parent << 8) | (j << 4)
    } else {
        parent | j
    }
}

pub fn closure_h(cid: u32, k: u16) -> H {
    H(cid, k)
}
