//! E1 worldsim, fault-injecting configuration (C19). Filled in below.
use crate::wcase::Op;
use crate::wexec::{Exec, R};

pub fn apply_with_fault(ex: &mut Exec, op: &Op) -> R {
    let mut plain = op.clone();
    plain.fault = None;
    ex.apply(&plain)
}
