//! E1 worldsim, fault-injecting configuration (C19): a component destructor panics at a chosen
//! destructor call of a destroying operation. The panic is caught, the ledger is checked for
//! double drops, every lookup is checked to expose only live values, the model is re-synchronised
//! *narrowly* (component maps adopt what the real storages now report, after validation), and the
//! run continues under the strict oracle.

use crate::comps::{EntryOp, Inner, V};
use crate::ledger;
use crate::wcase::*;
use crate::wexec::{Exec, R};
use std::panic::{catch_unwind, AssertUnwindSafe};

#[derive(Clone, Copy, Debug, PartialEq, Eq)]
pub enum Victim {
    /// an existing value, by identity
    Val(u64),
    /// the n-th value that will be created from now on (1 = next)
    Next(u64),
    /// the n-th zero-sized component destroyed from now on
    Zst(u64),
    /// the next default-filler destroyed
    Filler,
    /// a value destroyed while the lazy queue is applied inside `maintain` (removed by a lazy
    /// remove, replaced by a lazy insert, or refused because its target is dead)
    LazyVal(u64),
}

fn comps_at(ex: &Exec, idx: u32, out: &mut Vec<Victim>, zst: &mut u64) {
    for (s, m) in ex.model.comps.iter().enumerate() {
        if let Some(v) = m.get(&idx) {
            if ex.model.kinds[s].zst() {
                *zst += 1;
            } else {
                out.push(Victim::Val(v.0));
            }
        }
    }
}

/// The destructor calls the model predicts for this operation, one `Victim` per call.
pub fn predict(ex: &Exec, op: &Op) -> Vec<Victim> {
    let mut out: Vec<Victim> = vec![];
    let mut zst = 0u64;
    if let OpKind::ByRef(inner) = &op.kind {
        return predict(
            ex,
            &Op {
                uid: op.uid,
                kind: (**inner).clone(),
                fault: op.fault,
            },
        );
    }
    match &op.kind {
        OpKind::DeleteNow(h) => {
            if let Some((hn, e)) = ex.res(*h) {
                if ex.model.alive(hn) {
                    comps_at(ex, e.id(), &mut out, &mut zst);
                }
            }
        }
        OpKind::DeleteBatch(hs) => {
            let mut seen = vec![];
            for h in hs {
                let Some((hn, e)) = ex.res(*h) else { continue };
                if !ex.model.alive(hn) || seen.contains(&hn) {
                    break;
                }
                seen.push(hn);
                comps_at(ex, e.id(), &mut out, &mut zst);
            }
        }
        OpKind::DeleteAll => {
            for hn in ex.model.live_handles() {
                comps_at(ex, ex.model.hs[hn].ent.id(), &mut out, &mut zst);
            }
        }
        OpKind::Maintain => {
            for hn in ex.model.live_handles() {
                if ex.model.hs[hn].pending_kill {
                    comps_at(ex, ex.model.hs[hn].ent.id(), &mut out, &mut zst);
                }
            }
            // the lazy phase (approximate: effects of earlier queue entries on later ones are
            // ignored; a victim that is not destroyed simply does not fire)
            use crate::wmodel::LazyAct;
            let gone = |hn: usize| ex.model.hs[hn].dead || ex.model.hs[hn].pending_kill;
            for a in &ex.model.lazy {
                match a {
                    LazyAct::Remove { slot, hn } => {
                        let s = *slot as usize;
                        if !gone(*hn) && !ex.model.kinds[s].zst() {
                            if let Some(v) = ex.model.get(s, *hn) {
                                out.push(Victim::LazyVal(v.0));
                            }
                        }
                    }
                    LazyAct::Insert { slot, hn, v } => {
                        let s = *slot as usize;
                        if ex.model.kinds[s].zst() {
                            continue;
                        }
                        if gone(*hn) {
                            out.push(Victim::LazyVal(v.0));
                        } else if let Some(old) = ex.model.get(s, *hn) {
                            out.push(Victim::LazyVal(old.0));
                        }
                    }
                    LazyAct::InsertAll { slot, items } => {
                        let s = *slot as usize;
                        if ex.model.kinds[s].zst() {
                            continue;
                        }
                        for (hn, v) in items {
                            if gone(*hn) {
                                out.push(Victim::LazyVal(v.0));
                            } else if let Some(old) = ex.model.get(s, *hn) {
                                out.push(Victim::LazyVal(old.0));
                            }
                        }
                    }
                    _ => {}
                }
            }
        }
        OpKind::Clear { slot } => {
            let s = *slot as usize;
            if ex.model.kinds[s].zst() {
                zst += ex.model.comps[s].len() as u64;
            } else {
                for v in ex.model.comps[s].values() {
                    out.push(Victim::Val(v.0));
                }
            }
        }
        OpKind::Insert { slot, h, .. } => {
            if let Some((hn, _)) = ex.res(*h) {
                let s = *slot as usize;
                if !ex.model.alive(hn) {
                    // refused: the new value is destroyed inside insert
                    if ex.model.kinds[s].zst() {
                        zst += 1;
                    } else {
                        out.push(Victim::Next(1));
                    }
                } else if ex.model.kinds[s].inner == Inner::DefaultVec && ex.model.get(s, hn).is_none() {
                    // may overwrite (and destroy) a default filler
                    out.push(Victim::Filler);
                }
            }
        }
        OpKind::Entry {
            slot,
            h,
            op: EntryOp::OrInsert,
            ..
        } => {
            if let Some((hn, _)) = ex.res(*h) {
                let s = *slot as usize;
                if ex.model.alive(hn) && ex.model.get(s, hn).is_some() {
                    if ex.model.kinds[s].zst() {
                        zst += 1;
                    } else {
                        out.push(Victim::Next(1));
                    }
                }
            }
        }
        OpKind::ChangeSet { pairs, consume } => {
            let n = pairs.iter().filter(|(h, _)| ex.ctx.resolve(*h).is_some()).count() as u64;
            let all_destroyed = matches!(
                consume,
                CsConsume::Clear | CsConsume::Drop | CsConsume::ReadThenDrop | CsConsume::MutThenDrop
            );
            if all_destroyed {
                for i in 1..=n {
                    out.push(Victim::Next(i));
                }
            } else {
                // only the amounts combined into an existing slot are destroyed for sure
                let mut seen = vec![];
                let mut i = 0;
                for (h, _) in pairs {
                    let Some(e) = ex.ctx.resolve(*h) else { continue };
                    i += 1;
                    if seen.contains(&e.id()) {
                        out.push(Victim::Next(i));
                    } else {
                        seen.push(e.id());
                    }
                }
            }
        }
        _ => {}
    }
    for i in 0..zst {
        out.push(Victim::Zst(i + 1));
    }
    out.sort_by_key(|v| match v {
        Victim::Val(id) => (0, *id),
        Victim::Next(n) => (1, *n),
        Victim::Zst(n) => (2, *n),
        Victim::Filler => (3, 0),
        Victim::LazyVal(id) => (4, *id),
    });
    out
}

pub fn apply_with_fault(ex: &mut Exec, op: &Op) -> R {
    let victims = predict(ex, op);
    let Some(f) = op.fault else { return run_plain(ex, op) };
    if victims.is_empty() {
        return run_plain(ex, op);
    }
    let victim = victims[f.k as usize % victims.len()];
    match victim {
        Victim::Val(id) => ledger::arm_fault(id),
        Victim::Next(n) => ledger::arm_fault(ledger::total_vals() + n),
        Victim::Zst(n) => ledger::arm_zst_fault(n),
        Victim::Filler => ledger::arm_filler_fault(),
        Victim::LazyVal(id) => ledger::arm_fault(id),
    }
    ex.stats.faults_armed += 1;
    {
        // crash attribution: from here on an abort happens under an injected destructor fault
        let mut ps = crate::wexec::op_props(&op.kind);
        ps.push("C19");
        ps.push("C08");
        crate::util::probe_mark(&ps);
    }
    let pre_comps = ex.model.comps.clone();
    let r = catch_unwind(AssertUnwindSafe(|| ex.apply_inner(op)));
    let fired = ledger::disarm();
    match r {
        Ok(res) => {
            if fired {
                // the destructor panicked but the panic did not reach the caller
                ex.stats.probe("fault_fired_without_unwinding_to_caller");
            }
            res
        }
        Err(e) => {
            let msg = crate::util::panic_message(&e);
            if !fired || !msg.contains(ledger::FAULT_MSG) {
                let ps = crate::wexec::op_props(&op.kind);
                return Err(ex.viol(
                    &ps,
                    "panic-escaped",
                    format!(
                        "operation {:?} panicked: {} (at {})",
                        op.kind,
                        msg,
                        crate::util::last_panic_location()
                    ),
                ));
            }
            ex.stats.faults_fired += 1;
            if let Victim::LazyVal(_) = victim {
                // The panic interrupted the lazy queue: how much of it ran is specs' business. The
                // C19 obligations are checked right here (no double drop so far, every lookup
                // exposes only live values, join = mask); then the run ends with the world being
                // dropped, where a second destruction would show.
                ex.stats.probe("fault_fired_in_lazy_phase_of_maintain");
                let r = catch_unwind(AssertUnwindSafe(|| post_fault_reads(ex)));
                ex.abort_after_fault = true;
                return match r {
                    Ok(r) => r,
                    Err(e) => Err(ex.viol(
                        &["C19"],
                        "post-fault-panic",
                        format!(
                            "after a destructor panicked while the lazy queue was applied, inspecting the world panicked: {}",
                            crate::util::panic_message(&e)
                        ),
                    )),
                };
            }
            ex.stats.probe(match &op.kind {
                OpKind::Clear { .. } => "fault_fired_in_clear",
                OpKind::DeleteNow(_) | OpKind::DeleteBatch(_) | OpKind::DeleteAll => "fault_fired_in_entity_deletion",
                OpKind::Maintain => "fault_fired_in_maintain_purge",
                OpKind::Insert { .. } => "fault_fired_in_insert",
                OpKind::ChangeSet { .. } => "fault_fired_in_changeset",
                _ => "fault_fired_elsewhere",
            });
            // a corrupted storage may panic inside specs while it is inspected: that, too, is
            // "the world does not remain usable"
            match catch_unwind(AssertUnwindSafe(|| resync(ex, op, &pre_comps))) {
                Ok(r) => r,
                Err(e) => {
                    let msg = crate::util::panic_message(&e);
                    Err(ex.viol(
                        &["C19"],
                        "post-fault-panic",
                        format!(
                            "after the caught destructor panic in {:?}, inspecting the world panicked: {} (at {})",
                            op.kind,
                            msg,
                            crate::util::last_panic_location()
                        ),
                    ))
                }
            }
        }
    }
}

fn run_plain(ex: &mut Exec, op: &Op) -> R {
    let r = catch_unwind(AssertUnwindSafe(|| ex.apply_inner(op)));
    match r {
        Ok(r) => r,
        Err(e) => {
            let msg = crate::util::panic_message(&e);
            let ps = crate::wexec::op_props(&op.kind);
            Err(ex.viol(
                &ps,
                "panic-escaped",
                format!("operation {:?} panicked: {}", op.kind, msg),
            ))
        }
    }
}

/// The read-side C19 obligations after a caught panic, without touching the model.
fn post_fault_reads(ex: &mut Exec) -> R {
    let anomalies = ledger::take_anomalies();
    if let Some(a) = anomalies.first() {
        return Err(ex.viol(&["C19"], "ledger-exactly-once", a.clone()));
    }
    for s in 0..ex.slots.len() {
        let kind = ex.model.kinds[s];
        let mask = ex.slots[s].mask(ex.w());
        let dump = ex.slots[s].dump(ex.w());
        if dump.iter().map(|x| x.0).collect::<Vec<u32>>() != mask {
            return Err(ex.viol(
                &["C19"],
                "post-fault-join-vs-mask",
                format!("slot {} ({}): after the caught panic the join visits {:?} but the mask is {:?}", s, kind.name(), dump, mask),
            ));
        }
        if kind.zst() {
            continue;
        }
        for (i, v) in &dump {
            if ledger::state(v.0) != Some(ledger::VState::Live) {
                return Err(ex.viol(
                    &["C19"],
                    "read-of-dead-value",
                    format!(
                        "slot {} ({}) index {}: after a destructor panicked inside maintain's lazy phase a lookup still returns value {} whose ledger state is {:?}",
                        s,
                        kind.name(),
                        i,
                        v.0,
                        ledger::state(v.0)
                    ),
                ));
            }
        }
        if let Some(view) = ex.slots[s].slice(ex.w()) {
            for (pos, v) in &view.items {
                if ledger::state(v.0) != Some(ledger::VState::Live) {
                    return Err(ex.viol(
                        &["C19"],
                        "read-of-dead-value",
                        format!("slot {} ({}): slice position {} exposes value {} ({:?})", s, kind.name(), pos, v.0, ledger::state(v.0)),
                    ));
                }
            }
        }
    }
    let _ = ledger::take_drops();
    Ok(())
}

/// After a caught injected panic: validate what the world now exposes, adopt it, continue.
fn resync(ex: &mut Exec, op: &Op, pre: &[std::collections::BTreeMap<u32, V>]) -> R {
    // (a) no value destroyed twice so far
    let anomalies = ledger::take_anomalies();
    if let Some(a) = anomalies.first() {
        return Err(ex.viol(&["C19"], "ledger-exactly-once", a.clone()));
    }
    // entity-level effects are not interrupted by component destructors: the allocator finished
    // before the purge started
    match &op.kind {
        OpKind::DeleteNow(h) => {
            if let Some((hn, _)) = ex.res(*h) {
                if ex.model.alive(hn) {
                    ex.model.kill_entity_only(hn);
                }
            }
        }
        OpKind::DeleteBatch(hs) => {
            for h in hs {
                let Some((hn, _)) = ex.res(*h) else { continue };
                if !ex.model.alive(hn) {
                    break;
                }
                ex.model.kill_entity_only(hn);
            }
        }
        OpKind::DeleteAll => {
            for hn in ex.model.live_handles() {
                ex.model.kill_entity_only(hn);
            }
        }
        OpKind::Maintain => {
            let live = ex.model.live_handles();
            for hn in &live {
                ex.model.hs[*hn].merged = true;
            }
            for hn in live {
                if ex.model.hs[hn].pending_kill {
                    ex.model.kill_entity_only(hn);
                }
            }
            // the purge unwound before the lazy queue was touched: everything stays queued
        }
        _ => {}
    }
    // (b) every lookup exposes only values that are still alive per the ledger, and nothing
    //     that was not there before the operation
    for s in 0..ex.slots.len() {
        let kind = ex.model.kinds[s];
        let mask = ex.slots[s].mask(ex.w());
        let dump = ex.slots[s].dump(ex.w());
        if dump.iter().map(|x| x.0).collect::<Vec<u32>>() != mask {
            return Err(ex.viol(
                &["C19"],
                "post-fault-join-vs-mask",
                format!("slot {} ({}): after the caught panic the join visits {:?} but the mask is {:?}", s, kind.name(), dump, mask),
            ));
        }
        if !kind.zst() {
            for (i, v) in &dump {
                if ledger::state(v.0) != Some(ledger::VState::Live) {
                    return Err(ex.viol(
                        &["C19"],
                        "read-of-dead-value",
                        format!(
                            "slot {} ({}) index {}: after the caught destructor panic a lookup still returns value {} whose ledger state is {:?}",
                            s,
                            kind.name(),
                            i,
                            v.0,
                            ledger::state(v.0)
                        ),
                    ));
                }
                match pre[s].get(i) {
                    Some(p) if p.0 == v.0 => {}
                    other => {
                        // a value may be new only if this very op inserted it
                        let inserted_by_op = matches!(&op.kind, OpKind::Insert { slot, .. } | OpKind::Entry { slot, .. } if *slot as usize == s);
                        if !inserted_by_op {
                            return Err(ex.viol(
                                &["C19"],
                                "post-fault-foreign-value",
                                format!(
                                    "slot {} index {}: after the caught panic the storage holds {:?} where it held {:?} before",
                                    s, i, v, other
                                ),
                            ));
                        }
                    }
                }
            }
            // slice views must agree as well
            if let Some(view) = ex.slots[s].slice(ex.w()) {
                for (pos, v) in &view.items {
                    let st = ledger::state(v.0);
                    if st != Some(ledger::VState::Live) {
                        return Err(ex.viol(
                            &["C19"],
                            "read-of-dead-value",
                            format!(
                                "slot {} ({}): after the caught panic the slice view exposes value {} at position {} whose ledger state is {:?}",
                                s,
                                kind.name(),
                                v.0,
                                pos,
                                st
                            ),
                        ));
                    }
                }
            }
        }
        // (c) adopt
        ex.model.comps[s] = dump.into_iter().collect();
        // events: adopt what was emitted
        if ex.model.track[s].reader {
            let real = ex.slots[s].read_events(ex.w());
            let t = &mut ex.model.track[s];
            t.expected.clear();
            for ev in real {
                match ev {
                    crate::comps::Ev::Ins(i) => {
                        t.replayed.insert(i);
                    }
                    crate::comps::Ev::Rem(i) => {
                        t.replayed.remove(&i);
                    }
                    _ => {}
                }
            }
            // Entity deletion pairs "mask bit cleared" with "Removed written" before the value's
            // destructor runs, so replaying the events must still reproduce the membership even
            // when a destructor panicked part-way. Other interrupted operations (an insert that
            // unwound after announcing itself, clear) make replay meaningless for this reader.
            let deletion = matches!(
                &op.kind,
                OpKind::DeleteNow(_) | OpKind::DeleteBatch(_) | OpKind::DeleteAll | OpKind::Maintain
            );
            if !deletion {
                t.replay_valid = false;
            }
            if t.replay_valid && !t.emission_was_off {
                let mask: std::collections::BTreeSet<u32> = ex.model.comps[s].keys().copied().collect();
                if mask != ex.model.track[s].replayed {
                    let rep = ex.model.track[s].replayed.clone();
                    return Err(ex.viol(
                        &["C12", "C19"],
                        "event-replay-membership",
                        format!(
                            "slot {} ({}): after a destructor panicked inside an entity deletion, replaying Inserted/Removed gives {:?} but the mask is {:?} (a removal was not reported)",
                            s,
                            kind.name(),
                            rep,
                            mask
                        ),
                    ));
                }
            }
        } else {
            ex.model.track[s].expected.clear();
        }
    }
    // (d) values in flight may be leaked - or destroyed later (e.g. a value left in an unmasked
    //     slot is overwritten): the ledger comparison restarts from here and tolerates the
    //     destruction (once) of values that are alive but no longer in the world
    let _ = ledger::take_drops();
    let in_world = ex.model.values_in_world();
    for id in ledger::live_ids() {
        if !in_world.contains(&id) {
            ex.leaked_ok.insert(id);
        }
    }
    ex.model.exp_destroyed.clear();
    ex.model.exp_zst_destroyed = 0;
    let (_, zd, _) = ledger::zst_counts();
    ex.zst_dropped_seen = zd;
    // entity state must be exactly the model's: the world remains usable
    ex.check_aliveness()?;
    ex.check_storages(&["C19"])?;
    Ok(())
}
