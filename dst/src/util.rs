use std::any::Any;
use std::sync::Mutex;

pub fn panic_message(e: &Box<dyn Any + Send>) -> String {
    if let Some(s) = e.downcast_ref::<&'static str>() {
        s.to_string()
    } else if let Some(s) = e.downcast_ref::<String>() {
        s.clone()
    } else {
        "<non-string panic payload>".to_string()
    }
}

static LAST_PANIC_LOC: Mutex<String> = Mutex::new(String::new());

/// Silences the default panic printer (simulated faults panic on purpose) and remembers the
/// location of the most recent panic for violation reports.
pub fn install_quiet_panic_hook() {
    std::panic::set_hook(Box::new(|info| {
        let loc = info
            .location()
            .map(|l| format!("{}:{}", l.file(), l.line()))
            .unwrap_or_default();
        if let Ok(mut g) = LAST_PANIC_LOC.lock() {
            *g = loc;
        }
        if std::env::var_os("DST_VERBOSE_PANICS").is_some() {
            eprintln!("[panic] {}", info);
        }
    }));
}

pub fn last_panic_location() -> String {
    LAST_PANIC_LOC.lock().map(|g| g.clone()).unwrap_or_default()
}

static CRASHPROBE: std::sync::atomic::AtomicBool = std::sync::atomic::AtomicBool::new(false);

pub fn enable_crashprobe() {
    CRASHPROBE.store(true, std::sync::atomic::Ordering::SeqCst);
}

/// In crash-probe mode: announce (flushed) which properties the code about to run concerns, so
/// that a process abort can be attributed to the operation in progress.
pub fn probe_mark(props: &[&str]) {
    if CRASHPROBE.load(std::sync::atomic::Ordering::Relaxed) {
        use std::io::Write;
        let out = std::io::stdout();
        let mut o = out.lock();
        let _ = writeln!(o, "P {}", props.join(","));
        let _ = o.flush();
    }
}
