//! The clock seam. specs has no clock of its own to inject, so the seam sits one level lower: this
//! binary defines the C symbol `clock_gettime`, which is what `std::time::Instant::now()` and
//! `SystemTime::now()` call; the definition in the executable takes precedence over libc's. By
//! default it forwards to the kernel unchanged. While a thread has the simulated clock switched on
//! (twin engine, second execution only) every clock read on that thread is answered with the real
//! time plus an offset that jumps forward by a seeded amount per read - nothing, a millisecond,
//! seconds, hours - so that any code whose behaviour depends on elapsed time sees a different
//! elapsed time in the second execution than in the first. Other threads and every wait with a
//! deadline outside such a section keep the real clock.

use std::cell::Cell;

#[repr(C)]
pub struct Timespec {
    tv_sec: i64,
    tv_nsec: i64,
}

extern "C" {
    fn syscall(num: i64, ...) -> i64;
}

#[cfg(all(target_os = "linux", target_arch = "x86_64"))]
const SYS_CLOCK_GETTIME: i64 = 228;
#[cfg(all(target_os = "linux", target_arch = "aarch64"))]
const SYS_CLOCK_GETTIME: i64 = 113;

thread_local! {
    static ACTIVE: Cell<bool> = const { Cell::new(false) };
    static STATE: Cell<u64> = const { Cell::new(0) };
    static OFFSET_NS: Cell<u64> = const { Cell::new(0) };
    static READS: Cell<u64> = const { Cell::new(0) };
    static JUMPS: Cell<u64> = const { Cell::new(0) };
}

fn step(x: u64) -> u64 {
    // splitmix64
    let mut z = x.wrapping_add(0x9E37_79B9_7F4A_7C15);
    z = (z ^ (z >> 30)).wrapping_mul(0xBF58_476D_1CE4_E5B9);
    z = (z ^ (z >> 27)).wrapping_mul(0x94D0_49BB_1331_11EB);
    z ^ (z >> 31)
}

/// # Safety
/// same contract as the C function
#[no_mangle]
pub unsafe extern "C" fn clock_gettime(clk: i32, ts: *mut Timespec) -> i32 {
    let r = syscall(SYS_CLOCK_GETTIME, clk as i64, ts) as i32;
    if r != 0 || ts.is_null() {
        return r;
    }
    let active = ACTIVE.try_with(|a| a.get()).unwrap_or(false);
    if active {
        let s = STATE.with(|s| {
            let n = step(s.get());
            s.set(n);
            n
        });
        let jump: u64 = match s % 8 {
            0 | 1 | 2 => 0,
            3 => 1_000_000,                         // 1 ms
            4 => 1_500_000_000,                     // 1.5 s
            5 => 61_000_000_000,                    // a minute
            6 => 3_600_000_000_000 + (s >> 40),     // an hour and a bit
            _ => 86_400_000_000_000,                // a day
        };
        READS.with(|c| c.set(c.get() + 1));
        if jump > 0 {
            JUMPS.with(|c| c.set(c.get() + 1));
        }
        let off = OFFSET_NS.with(|o| {
            o.set(o.get().saturating_add(jump));
            o.get()
        });
        let t = &mut *ts;
        let total = t.tv_nsec as u64 + off % 1_000_000_000;
        t.tv_sec += (off / 1_000_000_000) as i64 + (total / 1_000_000_000) as i64;
        t.tv_nsec = (total % 1_000_000_000) as i64;
    }
    r
}

/// Switches the simulated clock on for this thread; returns a guard that switches it off again.
pub fn simulate(seed: u64) -> Guard {
    STATE.with(|s| s.set(seed));
    OFFSET_NS.with(|o| o.set(0));
    READS.with(|c| c.set(0));
    JUMPS.with(|c| c.set(0));
    ACTIVE.with(|a| a.set(true));
    Guard
}

pub struct Guard;

impl Guard {
    /// (clock reads answered, forward jumps applied) so far in this section
    pub fn counts(&self) -> (u64, u64) {
        (READS.with(|c| c.get()), JUMPS.with(|c| c.get()))
    }
}

impl Drop for Guard {
    fn drop(&mut self) {
        ACTIVE.with(|a| a.set(false));
    }
}

/// `dst clocktest`: shows that the seam is in effect in this binary.
pub fn selftest() -> bool {
    let a = std::time::Instant::now();
    let real = a.elapsed();
    let g = simulate(7);
    let mut max = std::time::Duration::ZERO;
    for _ in 0..64 {
        max = max.max(a.elapsed());
    }
    let (reads, jumps) = g.counts();
    drop(g);
    let after = a.elapsed();
    println!(
        "real elapsed {:?}; under the simulated clock up to {:?} ({} reads, {} jumps); after switching it off {:?}",
        real, max, reads, jumps, after
    );
    max > std::time::Duration::from_secs(3600) && reads == 64 && after < std::time::Duration::from_secs(5)
}
