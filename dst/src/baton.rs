//! The baton scheduler: simulated tasks are real OS threads, but exactly one holds the baton at any
//! moment; all others are parked. Control changes hands only at yield points (the `cfg(specs_verif)`
//! hook sites inside specs and explicit harness yields), and *who runs next* is always decided by
//! the seeded scheduler stream (or by an explicit recorded schedule on replay) - never by the OS.

use crate::rng::{Rng, TraceHash};
use serde::{Deserialize, Serialize};
use std::collections::BTreeMap;
use std::panic::{catch_unwind, AssertUnwindSafe};
use std::rc::Rc;
use std::sync::{Arc, Condvar, Mutex};

pub const STAY: u8 = 255;
const NONE: usize = usize::MAX;

#[derive(Clone, Copy, Debug, Serialize, Deserialize, PartialEq, Eq)]
pub enum Policy {
    /// uniform over all unfinished tasks at every yield point
    Uniform,
    /// stay on the current task with probability `stay_pct` %, else uniform over the others
    Sticky { stay_pct: u8 },
    /// PCT-style: random priorities, `d` priority change points at random steps
    Pct { d: u8 },
    /// switch to the next unfinished task at every yield point
    RoundRobin,
    /// never switch voluntarily
    RunToCompletion,
}

#[derive(Clone, Debug, Serialize, Deserialize)]
pub struct BatonCfg {
    pub policy: Policy,
    pub seed: u64,
    /// estimated number of yield points (used to place PCT change points)
    pub est_len: u32,
    /// after this many yield points the scheduler stops switching and buggify stops firing
    pub max_steps: u64,
    /// buggify sites enabled for this run with a firing probability in per-mille
    pub buggify: Vec<(String, u32)>,
}

/// Explicit decisions of one scheduled phase; sufficient to replay it.
#[derive(Clone, Debug, Default, Serialize, Deserialize, PartialEq, Eq)]
pub struct Recorded {
    /// one entry per yield point / task end: the task that got the baton (or STAY on replay)
    pub choices: Vec<u8>,
    /// one entry per buggify call at an enabled site
    pub bugs: Vec<bool>,
}

#[derive(Clone, Debug, Default)]
pub struct BatonStats {
    pub steps: u64,
    pub switches: u64,
    pub site_counts: BTreeMap<&'static str, u64>,
    pub buggify_fired: BTreeMap<&'static str, u64>,
    /// reach probes: two tasks parked inside the same CAS loop etc.
    pub probes: BTreeMap<&'static str, u64>,
    pub sched_hash: u64,
    pub capped: bool,
}

pub struct BatonResult {
    pub recorded: Recorded,
    pub stats: BatonStats,
    /// (task, panic message) for tasks whose body panicked
    pub panics: Vec<(usize, String)>,
}

struct State {
    n: usize,
    current: usize,
    finished: Vec<bool>,
    parked_site: Vec<&'static str>,
    rng: Rng,
    bug_rng: Rng,
    policy: Policy,
    prio: Vec<i64>,
    change_points: Vec<u64>,
    next_low_prio: i64,
    replay: Option<Recorded>,
    pos: usize,
    bug_pos: usize,
    out: Recorded,
    stats: BatonStats,
    max_steps: u64,
    buggify: Vec<(String, u32)>,
    hash: TraceHash,
}

impl State {
    fn unfinished(&self) -> Vec<usize> {
        (0..self.n).filter(|&i| !self.finished[i]).collect()
    }

    fn choose(&mut self, me: Option<usize>) -> usize {
        let cands = self.unfinished();
        debug_assert!(!cands.is_empty());
        let fallback = match me {
            Some(m) if !self.finished[m] => m,
            _ => cands[0],
        };
        let pick = if let Some(rep) = &self.replay {
            let c = rep.choices.get(self.pos).copied().unwrap_or(STAY);
            self.pos += 1;
            if c != STAY && (c as usize) < self.n && !self.finished[c as usize] {
                c as usize
            } else {
                fallback
            }
        } else if self.stats.steps > self.max_steps {
            self.stats.capped = true;
            fallback
        } else {
            match self.policy {
                Policy::Uniform => cands[self.rng.usize_below(cands.len())],
                Policy::Sticky { stay_pct } => {
                    let can_stay = matches!(me, Some(m) if !self.finished[m]);
                    if can_stay && self.rng.chance(stay_pct as u64, 100) {
                        fallback
                    } else {
                        let others: Vec<usize> =
                            cands.iter().copied().filter(|&c| Some(c) != me).collect();
                        if others.is_empty() {
                            fallback
                        } else {
                            others[self.rng.usize_below(others.len())]
                        }
                    }
                }
                Policy::Pct { .. } => {
                    if let Some(m) = me {
                        if self.change_points.contains(&self.stats.steps) {
                            self.prio[m] = self.next_low_prio;
                            self.next_low_prio -= 1;
                        }
                    }
                    *cands.iter().max_by_key(|&&c| self.prio[c]).unwrap()
                }
                Policy::RoundRobin => match me {
                    Some(m) => *cands.iter().find(|&&c| c > m).unwrap_or(&cands[0]),
                    None => cands[0],
                },
                Policy::RunToCompletion => fallback,
            }
        };
        self.out.choices.push(pick as u8);
        self.hash.add(pick as u64 + 1);
        pick
    }
}

struct Shared {
    m: Mutex<State>,
    cv: Condvar,
}

/// Handle a task body gets; also what the specs hook calls into.
#[derive(Clone)]
pub struct TaskCtx {
    shared: Arc<Shared>,
    pub id: usize,
}

impl TaskCtx {
    /// An explicit harness yield point.
    pub fn yield_now(&self, site: &'static str) {
        let sh = &*self.shared;
        let mut st = sh.m.lock().unwrap();
        st.stats.steps += 1;
        *st.stats.site_counts.entry(site).or_insert(0) += 1;
        st.hash.add_str(site);
        st.parked_site[self.id] = site;
        // reach probes
        for other in 0..st.n {
            if other != self.id && !st.finished[other] && st.parked_site[other] == site {
                let name: Option<&'static str> = match site {
                    "atomic_decrement.before_cas" => Some("two_tasks_inside_decrement_cas"),
                    "atomic_increment.before_cas" => Some("two_tasks_inside_increment_cas"),
                    "allocate_atomic.before_raise" => Some("two_tasks_before_raise"),
                    "kill_atomic.before_add" => Some("two_tasks_before_kill_add"),
                    _ => None,
                };
                if let Some(nm) = name {
                    *st.stats.probes.entry(nm).or_insert(0) += 1;
                }
            }
        }
        let next = st.choose(Some(self.id));
        if next != self.id {
            st.stats.switches += 1;
            st.current = next;
            sh.cv.notify_all();
            while st.current != self.id {
                st = sh.cv.wait(st).unwrap();
            }
        }
        st.parked_site[self.id] = "";
    }

    fn buggify(&self, site: &'static str) -> bool {
        let sh = &*self.shared;
        let mut st = sh.m.lock().unwrap();
        let pm = match st.buggify.iter().find(|(s, _)| s == site) {
            Some((_, pm)) => *pm,
            None => return false,
        };
        let fire = if let Some(rep) = &st.replay {
            let b = rep.bugs.get(st.bug_pos).copied().unwrap_or(false);
            st.bug_pos += 1;
            b
        } else if st.stats.steps > st.max_steps {
            false
        } else {
            st.bug_rng.chance(pm as u64, 1000)
        };
        st.out.bugs.push(fire);
        if fire {
            *st.stats.buggify_fired.entry(site).or_insert(0) += 1;
            st.hash.add_str(site);
        }
        fire
    }

    fn begin(&self) {
        let sh = &*self.shared;
        let mut st = sh.m.lock().unwrap();
        while st.current != self.id {
            st = sh.cv.wait(st).unwrap();
        }
    }

    fn end(&self) {
        let sh = &*self.shared;
        let mut st = sh.m.lock().unwrap();
        st.finished[self.id] = true;
        st.parked_site[self.id] = "";
        if st.unfinished().is_empty() {
            st.current = NONE;
        } else {
            let next = st.choose(None);
            st.current = next;
        }
        sh.cv.notify_all();
    }
}

struct HookImpl(TaskCtx);

impl specs::verif::Hook for HookImpl {
    fn yield_point(&self, site: &'static str) {
        self.0.yield_now(site);
    }
    fn buggify(&self, site: &'static str) -> bool {
        self.0.buggify(site)
    }
}

pub type TaskBody<'env> = Box<dyn FnOnce(&TaskCtx) + Send + 'env>;

/// Runs the task bodies to completion under the baton. `replay`: explicit decisions to follow.
pub fn run_tasks<'env>(
    cfg: &BatonCfg,
    replay: Option<Recorded>,
    bodies: Vec<TaskBody<'env>>,
) -> BatonResult {
    let n = bodies.len();
    assert!(n > 0 && n < STAY as usize);
    let mut rng = Rng::new(cfg.seed);
    let bug_rng = rng.fork(0xB06);
    let mut prio: Vec<i64> = (0..n as i64).map(|i| i + 1000).collect();
    let mut change_points = vec![];
    if let Policy::Pct { d } = cfg.policy {
        rng.shuffle(&mut prio);
        for _ in 0..d {
            change_points.push(rng.range(1, cfg.est_len.max(2) as u64));
        }
    }
    let shared = Arc::new(Shared {
        m: Mutex::new(State {
            n,
            current: NONE,
            finished: vec![false; n],
            parked_site: vec![""; n],
            rng,
            bug_rng,
            policy: cfg.policy,
            prio,
            change_points,
            next_low_prio: 0,
            replay,
            pos: 0,
            bug_pos: 0,
            out: Recorded::default(),
            stats: BatonStats::default(),
            max_steps: cfg.max_steps,
            buggify: cfg.buggify.clone(),
            hash: TraceHash::default(),
        }),
        cv: Condvar::new(),
    });
    let panics: Mutex<Vec<(usize, String)>> = Mutex::new(vec![]);
    std::thread::scope(|scope| {
        for (id, body) in bodies.into_iter().enumerate() {
            let ctx = TaskCtx {
                shared: shared.clone(),
                id,
            };
            let panics = &panics;
            std::thread::Builder::new()
                .name(format!("sim-task-{}", id))
                .spawn_scoped(scope, move || {
                    ctx.begin();
                    let prev = specs::verif::install(Rc::new(HookImpl(ctx.clone())));
                    let r = catch_unwind(AssertUnwindSafe(|| body(&ctx)));
                    specs::verif::uninstall();
                    if let Some(p) = prev {
                        specs::verif::install(p);
                    }
                    if let Err(e) = r {
                        panics
                            .lock()
                            .unwrap()
                            .push((id, crate::util::panic_message(&e)));
                    }
                    ctx.end();
                })
                .expect("spawn simulated task");
        }
        // hand the baton to the first task
        let mut st = shared.m.lock().unwrap();
        let first = st.choose(None);
        st.current = first;
        shared.cv.notify_all();
        drop(st);
    });
    let mut st = shared.m.lock().unwrap();
    st.stats.sched_hash = st.hash.0;
    let mut p = panics.into_inner().unwrap();
    p.sort();
    BatonResult {
        recorded: std::mem::take(&mut st.out),
        stats: std::mem::take(&mut st.stats),
        panics: p,
    }
}
