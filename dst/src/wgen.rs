//! E1 worldsim: swarm configuration and model-aware operation generator.

use crate::baton::{BatonCfg, Policy};
use crate::comps::{all_kinds, EntryOp, Inner, Kind, OtherMode, Wrap, ALL_REG_PATHS};
use crate::rng::Rng;
use crate::wcase::*;
use crate::wexec::Exec;

#[derive(Clone, Copy, Debug, PartialEq, Eq, Hash, PartialOrd, Ord)]
pub enum Cat {
    CreateNow,
    CreateIterNow,
    BuilderDropped,
    CreateDeferred,
    CreateIterDeferred,
    DeleteNow,
    DeleteBatch,
    DeleteDeferred,
    DeleteAll,
    Maintain,
    Insert,
    Get,
    GetMut,
    Remove,
    Contains,
    Entry,
    GetMutOrDefault,
    LendGet,
    LendGetMut,
    Drain,
    Clear,
    SliceRead,
    SliceWrite,
    JoinMut,
    EntriesOrInsert,
    RestrictRead,
    RestrictShared,
    RestrictExcl,
    RegisterReader,
    SetEmission,
    LazyInsert,
    LazyInsertAll,
    LazyRemove,
    LazyExec,
    ChangeSet,
    Observe,
    StaleProbe,
    Par,
}

#[derive(Clone, Debug)]
pub struct Profile {
    pub name: &'static str,
    pub weights: Vec<(Cat, u32)>,
    pub frames: (u64, u64),
    pub ops: (u64, u64),
    /// probability (percent) of `maintain` at the end of a frame
    pub maintain_pct: u64,
    pub slots: (u64, u64),
    /// which storage kinds may be chosen
    pub kinds: KindFilter,
    /// percent of runs with a wide index space
    pub wide_pct: u64,
    pub faults: bool,
    /// per-op probability (percent) of attaching a destructor fault (faults profile only)
    pub fault_pct: u64,
    /// probability (percent) that a picked handle for a storage op is dead/stale
    pub stale_pct: u64,
    pub allow_clear: bool,
    /// probability (percent) of a parallel phase at the end of a frame
    pub par_pct: u64,
    /// bulk histories: always a wide, densely kept index space; creation bursts and very large
    /// deletion batches (several 64-handle blocks)
    pub bulk: bool,
    /// bulk with thousands of live entities and batches of more than a thousand handles
    pub huge: bool,
}

#[derive(Clone, Copy, Debug, PartialEq, Eq)]
pub enum KindFilter {
    Any,
    Tracked,
    Plain,
    /// at most one cheap storage (lifecycle profiles)
    Few,
}

fn lifecycle_weights() -> Vec<(Cat, u32)> {
    use Cat::*;
    vec![
        (CreateNow, 14),
        (CreateIterNow, 5),
        (BuilderDropped, 5),
        (CreateDeferred, 14),
        (CreateIterDeferred, 4),
        (DeleteNow, 14),
        (DeleteBatch, 9),
        (DeleteDeferred, 10),
        (DeleteAll, 1),
        (Maintain, 8),
        (Insert, 4),
        (Get, 2),
        (Observe, 2),
        (StaleProbe, 2),
        (LazyExec, 2),
    ]
}

fn storage_weights() -> Vec<(Cat, u32)> {
    use Cat::*;
    vec![
        (CreateNow, 8),
        (CreateDeferred, 3),
        (DeleteNow, 3),
        (DeleteBatch, 1),
        (DeleteDeferred, 2),
        (Maintain, 3),
        (Insert, 16),
        (Get, 6),
        (GetMut, 8),
        (Remove, 8),
        (Contains, 3),
        (Entry, 12),
        (GetMutOrDefault, 5),
        (LendGet, 2),
        (LendGetMut, 3),
        (Drain, 3),
        (Clear, 1),
        (SliceRead, 4),
        (SliceWrite, 3),
        (JoinMut, 5),
        (EntriesOrInsert, 1),
        (StaleProbe, 2),
    ]
}

pub fn profile(name: &str) -> Profile {
    use Cat::*;
    let base = Profile {
        name: "lifecycle",
        weights: lifecycle_weights(),
        frames: (1, 6),
        ops: (1, 10),
        maintain_pct: 60,
        slots: (1, 2),
        kinds: KindFilter::Few,
        wide_pct: 6,
        faults: false,
        fault_pct: 0,
        stale_pct: 10,
        allow_clear: true,
        par_pct: 2,
        bulk: false,
        huge: false,
    };
    match name {
        "lifecycle" => base,
        "churn" => Profile {
            name: "churn",
            frames: (4, 24),
            ops: (2, 12),
            ..base
        },
        "bulk" => {
            let w = vec![
                (DeleteBatch, 30),
                (CreateIterNow, 16),
                (CreateIterDeferred, 10),
                (Maintain, 10),
                (CreateNow, 5),
                (CreateDeferred, 4),
                (DeleteNow, 5),
                (DeleteDeferred, 5),
                (DeleteAll, 1),
                (Insert, 6),
                (Observe, 1),
            ];
            Profile {
                name: "bulk",
                weights: w,
                frames: (2, 6),
                ops: (2, 8),
                slots: (1, 2),
                wide_pct: 100,
                bulk: true,
                par_pct: 0,
                ..base
            }
        }
        "bulkhuge" => {
            let mut p = profile("bulk");
            p.name = "bulkhuge";
            p.huge = true;
            p.frames = (2, 4);
            p.ops = (2, 6);
            p
        }
        "stale" => {
            let mut w = lifecycle_weights();
            w.push((StaleProbe, 40));
            w.push((Insert, 10));
            w.push((RestrictExcl, 4));
            w.push((RestrictRead, 3));
            w.push((LazyInsert, 3));
            w.push((LazyRemove, 2));
            Profile {
                name: "stale",
                weights: w,
                slots: (1, 3),
                kinds: KindFilter::Any,
                stale_pct: 60,
                ..base
            }
        }
        "storage" => Profile {
            name: "storage",
            weights: storage_weights(),
            frames: (1, 5),
            ops: (2, 14),
            slots: (1, 3),
            kinds: KindFilter::Any,
            stale_pct: 5,
            ..base
        },
        "purge" => {
            let mut w = lifecycle_weights();
            w.push((Insert, 25));
            w.push((CreateNow, 10));
            w.push((Entry, 4));
            w.push((LazyInsert, 3));
            Profile {
                name: "purge",
                weights: w,
                slots: (2, 6),
                kinds: KindFilter::Any,
                ..base
            }
        }
        "values" => {
            let mut w = storage_weights();
            w.extend(lifecycle_weights());
            w.push((ChangeSet, 8));
            w.push((LazyInsert, 6));
            w.push((LazyInsertAll, 3));
            w.push((LazyRemove, 3));
            w.push((LazyExec, 3));
            w.push((Clear, 3));
            Profile {
                name: "values",
                weights: w,
                slots: (2, 5),
                kinds: KindFilter::Any,
                maintain_pct: 50,
                ..base
            }
        }
        "lazy" => {
            let mut w = lifecycle_weights();
            w.push((LazyInsert, 16));
            w.push((LazyInsertAll, 6));
            w.push((LazyRemove, 8));
            w.push((LazyExec, 26));
            w.push((Insert, 8));
            Profile {
                name: "lazy",
                weights: w,
                slots: (1, 3),
                kinds: KindFilter::Any,
                maintain_pct: 65,
                ..base
            }
        }
        "tracked" => {
            let mut w = storage_weights();
            w.retain(|(c, _)| !matches!(c, Clear | SliceRead | SliceWrite));
            w.push((RegisterReader, 5));
            w.push((SetEmission, 3));
            w.push((RestrictShared, 4));
            w.push((RestrictExcl, 4));
            w.push((RestrictRead, 2));
            w.push((DeleteAll, 1));
            w.push((DeleteBatch, 3));
            w.push((DeleteDeferred, 3));
            w.push((LazyInsert, 3));
            w.push((LazyInsertAll, 3));
            w.push((LazyRemove, 2));
            w.push((BuilderDropped, 2));
            Profile {
                name: "tracked",
                weights: w,
                slots: (1, 3),
                kinds: KindFilter::Tracked,
                allow_clear: false,
                ..base
            }
        }
        "trackedfaults" => {
            // tracked storages under destructor faults in deletion paths (C12 across a caught panic)
            let mut p = profile("tracked");
            p.name = "trackedfaults";
            p.faults = true;
            p.fault_pct = 45;
            p.wide_pct = 0;
            p.par_pct = 0;
            p.weights.push((RegisterReader, 10));
            p.weights.push((DeleteNow, 8));
            p.weights.push((DeleteBatch, 6));
            p.weights.push((DeleteDeferred, 6));
            p.weights.push((Maintain, 5));
            p
        }
        "restricted" => {
            let mut w = storage_weights();
            w.push((RestrictRead, 20));
            w.push((RestrictShared, 20));
            w.push((RestrictExcl, 25));
            w.push((RegisterReader, 4));
            w.push((CreateDeferred, 4));
            w.push((DeleteNow, 5));
            Profile {
                name: "restricted",
                weights: w,
                slots: (1, 3),
                kinds: KindFilter::Any,
                stale_pct: 35,
                ..base
            }
        }
        "single" => {
            // single-threaded histories for the determinism property (C20): everything except
            // parallel phases and faults, all storage kinds
            let mut w = storage_weights();
            w.extend(lifecycle_weights());
            w.push((ChangeSet, 3));
            w.push((LazyInsert, 5));
            w.push((LazyInsertAll, 2));
            w.push((LazyRemove, 3));
            w.push((LazyExec, 5));
            w.push((RegisterReader, 4));
            w.push((SetEmission, 1));
            w.push((RestrictRead, 3));
            w.push((RestrictShared, 3));
            w.push((RestrictExcl, 3));
            Profile {
                name: "single",
                weights: w,
                frames: (1, 6),
                ops: (2, 12),
                slots: (2, 5),
                kinds: KindFilter::Any,
                par_pct: 0,
                wide_pct: 2,
                ..base
            }
        }
        "parallel" => {
            let mut w = lifecycle_weights();
            w.push((Insert, 6));
            Profile {
                name: "parallel",
                weights: w,
                frames: (1, 4),
                ops: (1, 6),
                slots: (1, 2),
                kinds: KindFilter::Plain,
                maintain_pct: 70,
                wide_pct: 1,
                par_pct: 90,
                ..base
            }
        }
        "faults" => {
            let mut w = storage_weights();
            w.extend(lifecycle_weights());
            w.push((Clear, 8));
            w.push((DeleteAll, 3));
            w.push((DeleteBatch, 6));
            w.push((ChangeSet, 6));
            w.push((LazyInsert, 6));
            w.push((LazyRemove, 8));
            w.push((LazyInsertAll, 2));
            w.push((Insert, 10));
            Profile {
                name: "faults",
                weights: w,
                slots: (1, 4),
                kinds: KindFilter::Any,
                faults: true,
                fault_pct: 45,
                wide_pct: 0,
                par_pct: 0,
                ..base
            }
        }
        other => panic!("unknown worldsim profile {}", other),
    }
}

pub struct Gen {
    pub rng: Rng,
    pub prof: Profile,
    pub next_uid: u32,
}

fn pick_kinds(rng: &mut Rng, f: KindFilter, n: usize) -> Vec<Kind> {
    let mut all: Vec<Kind> = all_kinds()
        .into_iter()
        .filter(|k| match f {
            KindFilter::Any => true,
            KindFilter::Tracked => k.tracked(),
            KindFilter::Plain => !k.tracked(),
            KindFilter::Few => matches!(
                (k.wrap, k.inner),
                (Wrap::Plain, Inner::Vec) | (Wrap::Plain, Inner::Dense) | (Wrap::Plain, Inner::Hash) | (Wrap::Plain, Inner::Null)
            ),
        })
        .collect();
    rng.shuffle(&mut all);
    all.truncate(n);
    all
}

impl Gen {
    pub fn new(seed: u64, prof: Profile) -> Gen {
        Gen {
            rng: Rng::new(seed),
            prof,
            next_uid: 1,
        }
    }

    pub fn gen_cfg(&mut self) -> WCfg {
        let n = self.rng.range(self.prof.slots.0, self.prof.slots.1) as usize;
        let kinds = pick_kinds(&mut self.rng, self.prof.kinds, n);
        let slots = kinds
            .into_iter()
            .map(|k| (k, *self.rng.pick(&ALL_REG_PATHS)))
            .collect();
        let mut keep_cap = 0;
        let (prealloc, keep_every) = if self.prof.huge {
            keep_cap = 1500;
            (2_900, 2)
        } else if self.prof.bulk {
            match self.rng.below(6) {
                0 | 1 => (300, 2),
                2 => (520, 3),
                3 => (200, 1),
                4 => (4_200, 29),
                _ => (8_300, 61),
            }
        } else if self.rng.chance(self.prof.wide_pct, 100) {
            match self.rng.below(12) {
                0 => (263_000, 9_001),
                1..=3 => (4_200, 131),
                4..=5 => (4_200, 29),
                6 => (8_300, 61),
                7..=8 => (300, 2),
                _ => (130, 7),
            }
        } else {
            (0, 1)
        };
        WCfg {
            slots,
            prealloc,
            keep_every,
            faults: self.prof.faults,
            keep_cap,
        }
    }

    pub fn uid(&mut self) -> u32 {
        let u = self.next_uid;
        self.next_uid += 1;
        u
    }

    fn payload(&mut self) -> i64 {
        self.rng.range(1, 9999) as i64
    }

    fn nslots(&self, ex: &Exec) -> usize {
        ex.slots.len()
    }

    fn slot(&mut self, ex: &Exec) -> u8 {
        self.rng.usize_below(self.nslots(ex)) as u8
    }

    fn comps(&mut self, ex: &Exec, max: usize) -> Comps {
        let n = self.rng.usize_below(max.min(self.nslots(ex)) + 1);
        let mut v = vec![];
        for _ in 0..n {
            let s = self.slot(ex);
            // occasionally the same slot twice (second `.with()` overwrites)
            if v.iter().any(|x: &(u8, i64)| x.0 == s) && !self.rng.chance(1, 8) {
                continue;
            }
            v.push((s, self.payload()));
        }
        v
    }

    // ---- handle pickers (all by model state)

    pub fn live(&mut self, ex: &Exec) -> Option<H> {
        let l = ex.model.live_handles();
        if l.is_empty() {
            return None;
        }
        // bias to recent
        let hn = if self.rng.chance(1, 2) {
            l[l.len() - 1 - self.rng.usize_below(l.len().min(4))]
        } else {
            *self.rng.pick(&l)
        };
        Some(ex.model.hs[hn].href).filter(|h| h.1 != u16::MAX)
    }

    pub fn dead(&mut self, ex: &Exec) -> Option<H> {
        let n = ex.model.hs.len();
        if n == 0 {
            return None;
        }
        // prefer dead handles whose index is re-occupied
        let mut cands: Vec<usize> = vec![];
        let mut reocc: Vec<usize> = vec![];
        let start = n.saturating_sub(200);
        for hn in start..n {
            let i = &ex.model.hs[hn];
            if i.dead && i.href.1 != u16::MAX {
                cands.push(hn);
                if ex.model.occ.contains_key(&i.ent.id()) {
                    reocc.push(hn);
                }
            }
        }
        if !reocc.is_empty() && self.rng.chance(3, 4) {
            return Some(ex.model.hs[*self.rng.pick(&reocc)].href);
        }
        if cands.is_empty() {
            return None;
        }
        Some(ex.model.hs[*self.rng.pick(&cands)].href)
    }

    pub fn any_handle(&mut self, ex: &Exec) -> Option<H> {
        if self.rng.chance(self.prof.stale_pct, 100) {
            self.dead(ex).or_else(|| self.live(ex))
        } else {
            self.live(ex).or_else(|| self.dead(ex))
        }
    }

    /// a live handle, preferring one that has (or lacks) a component in `slot`
    fn live_with(&mut self, ex: &Exec, slot: u8, has: bool) -> Option<H> {
        let l: Vec<usize> = ex
            .model
            .live_handles()
            .into_iter()
            .filter(|&hn| ex.model.get(slot as usize, hn).is_some() == has)
            .collect();
        if l.is_empty() {
            return self.live(ex);
        }
        let hn = *self.rng.pick(&l);
        Some(ex.model.hs[hn].href).filter(|h| h.1 != u16::MAX).or_else(|| self.live(ex))
    }

    fn target(&mut self, ex: &Exec, slot: u8) -> Option<H> {
        if self.rng.chance(self.prof.stale_pct, 100) {
            return self.dead(ex).or_else(|| self.live(ex));
        }
        let has = self.rng.chance(2, 3);
        self.live_with(ex, slot, has)
    }

    fn write(&mut self) -> Option<i64> {
        if self.rng.chance(3, 5) {
            Some(self.payload())
        } else {
            None
        }
    }

    fn acts(&mut self, ex: &Exec, slot: u8) -> Vec<(H, bool, Option<i64>)> {
        let n = self.rng.usize_below(4);
        let mut v = vec![];
        for _ in 0..n {
            if let Some(h) = self.live_with(ex, slot, true) {
                let m = self.rng.chance(1, 2);
                let w = self.write();
                v.push((h, m, w));
            }
        }
        v
    }

    fn script(&mut self, ex: &Exec, depth: u8) -> Vec<SOp> {
        let n = self.rng.range(0, 4) as usize;
        let mut v = vec![];
        for _ in 0..n {
            let c = self.rng.below(20);
            let op = match c {
                0..=4 => {
                    let mut hs = vec![];
                    for _ in 0..self.rng.range(1, 3) {
                        if let Some(h) = self.recentish(ex) {
                            hs.push(h);
                        }
                    }
                    SOp::ObserveAlive(hs)
                }
                5..=7 => {
                    let s = self.slot(ex);
                    let mut hs = vec![];
                    for _ in 0..self.rng.range(1, 3) {
                        if let Some(h) = self.recentish(ex) {
                            hs.push(h);
                        }
                    }
                    SOp::ObserveComp(s, hs)
                }
                8 => SOp::ObserveJoin,
                9..=10 => SOp::CreateNow(self.comps(ex, 2)),
                11..=12 => match self.any_handle(ex) {
                    Some(h) => SOp::DeleteNow(h),
                    None => SOp::ObserveJoin,
                },
                13 => SOp::CreateDeferred,
                14 => match self.any_handle(ex) {
                    Some(h) => SOp::DeleteDeferred(h),
                    None => SOp::ObserveJoin,
                },
                15..=16 => match self.any_handle(ex) {
                    Some(h) => SOp::Insert(self.slot(ex), h, self.payload()),
                    None => SOp::ObserveJoin,
                },
                17 => match self.any_handle(ex) {
                    Some(h) => SOp::Remove(self.slot(ex), h),
                    None => SOp::ObserveJoin,
                },
                _ => {
                    if depth < 2 {
                        SOp::Queue(self.script(ex, depth + 1))
                    } else {
                        SOp::ObserveJoin
                    }
                }
            };
            v.push(op);
        }
        v
    }

    /// handles that make lazy observations interesting: un-merged, pending deletion, recent
    fn recentish(&mut self, ex: &Exec) -> Option<H> {
        let n = ex.model.hs.len();
        if n == 0 {
            return None;
        }
        let start = n.saturating_sub(12);
        let hn = start + self.rng.usize_below(n - start);
        Some(ex.model.hs[hn].href).filter(|h| h.1 != u16::MAX)
    }

    fn stale_probe(&mut self, ex: &Exec) -> Option<OpKind> {
        let h = self.dead(ex)?;
        let slot = self.slot(ex);
        let w = self.write();
        let p = self.payload();
        Some(match self.rng.below(13) {
            0 => OpKind::Get { slot, h, read: self.rng.chance(1, 2) },
            1 => OpKind::GetMut { slot, h, touch: true, write: w },
            2 => OpKind::Contains { slot, h },
            3 => OpKind::Insert { slot, h, payload: p, generic: self.rng.chance(1, 3) },
            4 => OpKind::Remove { slot, h, lend: self.rng.chance(1, 3) },
            5 => OpKind::Entry { slot, h, op: *self.rng.pick(&ENTRY_OPS), payload: p, write: w },
            6 => OpKind::GetMutOrDefault { slot, h, touch: true, write: w },
            7 => OpKind::LendGet { slot, h },
            8 => OpKind::LendGetMut { slot, h, touch: true, write: w },
            9 => OpKind::RestrictExcl {
                slot,
                take: 3,
                acts: vec![],
                others: vec![(h, if self.rng.chance(1, 2) { OtherMode::MutWrite(p) } else { OtherMode::Read })],
            },
            10 => OpKind::RestrictRead { slot, lend: self.rng.chance(1, 2), take: 3, others: vec![h] },
            11 => OpKind::LazyInsert { slot, h, payload: p },
            _ => OpKind::LazyRemove { slot, h },
        })
    }

    pub fn next_kind(&mut self, ex: &Exec) -> OpKind {
        let weights: Vec<u32> = self.prof.weights.iter().map(|x| x.1).collect();
        for _ in 0..8 {
            let cat = self.prof.weights[self.rng.weighted(&weights)].0;
            if let Some(k) = self.gen_cat(ex, cat) {
                // some generic-storage accesses go through the by-reference overloads
                let wrap = match &k {
                    OpKind::Insert { generic: true, .. } | OpKind::Get { read: true, .. } => self.rng.chance(1, 2),
                    OpKind::GetMut { .. } | OpKind::GetMutOrDefault { .. } => self.rng.chance(1, 3),
                    _ => false,
                };
                return if wrap { OpKind::ByRef(Box::new(k)) } else { k };
            }
        }
        OpKind::CreateNow(vec![])
    }

    fn gen_cat(&mut self, ex: &Exec, cat: Cat) -> Option<OpKind> {
        use Cat::*;
        let many = ex.model.live_count() > if self.prof.huge { 1600 } else if ex.cfg.prealloc > 0 { 220 } else { 40 };
        Some(match cat {
            CreateNow => {
                if many {
                    return None;
                }
                OpKind::CreateNow(self.comps(ex, 3))
            }
            CreateIterNow => {
                if many {
                    return None;
                }
                OpKind::CreateIterNow(if self.prof.bulk { self.rng.range(1, 130) } else { self.rng.range(0, 4) } as u8)
            }
            BuilderDropped => {
                let c = self.comps(ex, 2);
                if self.rng.chance(1, 3) {
                    OpKind::BuilderUnwound(c)
                } else {
                    OpKind::BuilderDropped(c)
                }
            }
            CreateDeferred => {
                if many {
                    return None;
                }
                let via = *self.rng.pick(&[Via::Entities, Via::BuildEntity, Via::LazyBuilder]);
                OpKind::CreateDeferred {
                    via,
                    comps: if via == Via::Entities { vec![] } else { self.comps(ex, 2) },
                    dropped: via == Via::BuildEntity && self.rng.chance(1, 3),
                }
            }
            CreateIterDeferred => OpKind::CreateIterDeferred(if self.prof.bulk { self.rng.range(1, 100) } else { self.rng.range(0, 3) } as u8),
            DeleteNow => OpKind::DeleteNow(if self.rng.chance(1, 8) { self.dead(ex)? } else { self.live(ex)? }),
            DeleteBatch => {
                // mostly short batches; sometimes a large one (more than 16 handles); with many
                // live entities sometimes a very large one (several 64-handle blocks) with a dead
                // or repeated handle far into the batch
                if ex.model.live_count() > 66 && self.rng.chance(if self.prof.bulk { 3 } else { 1 }, if self.prof.bulk { 4 } else { 3 }) {
                    let live = ex.model.live_handles();
                    let cap = if self.prof.huge { 1480 } else { 200 };
                    let take = if self.prof.huge && live.len() > 1100 && self.rng.chance(2, 3) {
                        self.rng.range(1030, live.len().min(cap) as u64) as usize
                    } else {
                        self.rng.range(65, live.len().min(cap) as u64) as usize
                    };
                    let mut hs: Vec<H> = live
                        .iter()
                        .map(|&hn| ex.model.hs[hn].href)
                        .filter(|h| h.1 != u16::MAX)
                        .take(take)
                        .collect();
                    if self.rng.chance(2, 3) && hs.len() > 65 {
                        let pos = self.rng.range(64, hs.len() as u64 - 1) as usize;
                        let bad = if self.rng.chance(1, 2) { self.dead(ex) } else { Some(hs[self.rng.usize_below(pos)]) };
                        if let Some(b) = bad {
                            hs.insert(pos, b);
                        }
                        // sometimes a second stale handle further on
                        if self.rng.chance(1, 2) && hs.len() > pos + 2 {
                            if let Some(b2) = self.dead(ex) {
                                let pos2 = self.rng.range(pos as u64 + 1, hs.len() as u64 - 1) as usize;
                                hs.insert(pos2, b2);
                            }
                        }
                    }
                    return Some(OpKind::DeleteBatch(hs));
                }
                let n = if self.rng.chance(1, 12) {
                    self.rng.range(17, 30) as usize
                } else {
                    self.rng.range(1, 5) as usize
                };
                let mut hs = vec![];
                for _ in 0..n {
                    let h = match self.rng.below(10) {
                        0 | 1 => self.dead(ex),
                        2 if !hs.is_empty() => Some(*self.rng.pick(&hs)),
                        _ => self.live(ex),
                    };
                    if let Some(h) = h {
                        hs.push(h);
                    }
                }
                if hs.is_empty() {
                    return None;
                }
                OpKind::DeleteBatch(hs)
            }
            DeleteDeferred => OpKind::DeleteDeferred(if self.rng.chance(1, 8) { self.dead(ex)? } else { self.live(ex)? }),
            DeleteAll => OpKind::DeleteAll,
            Maintain => OpKind::Maintain,
            Insert => {
                let slot = self.slot(ex);
                OpKind::Insert {
                    slot,
                    h: self.target(ex, slot)?,
                    payload: self.payload(),
                    generic: self.rng.chance(1, 6),
                }
            }
            Get => {
                let slot = self.slot(ex);
                OpKind::Get { slot, h: self.target(ex, slot)?, read: self.rng.chance(1, 2) }
            }
            GetMut => {
                let slot = self.slot(ex);
                OpKind::GetMut {
                    slot,
                    h: self.target(ex, slot)?,
                    touch: self.rng.chance(1, 3),
                    write: self.write(),
                }
            }
            Remove => {
                let slot = self.slot(ex);
                OpKind::Remove { slot, h: self.target(ex, slot)?, lend: self.rng.chance(1, 5) }
            }
            Contains => {
                let slot = self.slot(ex);
                OpKind::Contains { slot, h: self.target(ex, slot)? }
            }
            Entry => {
                let slot = self.slot(ex);
                if self.rng.chance(1, 60) {
                    return Some(OpKind::EntryHuge { slot, payload: self.payload() });
                }
                OpKind::Entry {
                    slot,
                    h: self.target(ex, slot)?,
                    op: *self.rng.pick(&ENTRY_OPS),
                    payload: self.payload(),
                    write: self.write(),
                }
            }
            GetMutOrDefault => {
                let slot = self.slot(ex);
                OpKind::GetMutOrDefault {
                    slot,
                    h: self.target(ex, slot)?,
                    touch: self.rng.chance(1, 3),
                    write: self.write(),
                }
            }
            LendGet => {
                let slot = self.slot(ex);
                OpKind::LendGet { slot, h: self.target(ex, slot)? }
            }
            LendGetMut => {
                let slot = self.slot(ex);
                OpKind::LendGetMut {
                    slot,
                    h: self.target(ex, slot)?,
                    touch: self.rng.chance(1, 3),
                    write: self.write(),
                }
            }
            Drain => OpKind::Drain { slot: self.slot(ex), take: *self.rng.pick(&[0u16, 1, 2, 3, 1000]) },
            Clear => {
                if !self.prof.allow_clear {
                    return None;
                }
                OpKind::Clear { slot: self.slot(ex) }
            }
            SliceRead => OpKind::SliceRead { slot: self.slot(ex) },
            SliceWrite => {
                let slot = self.slot(ex);
                OpKind::SliceWrite { slot, h: self.live_with(ex, slot, true)?, payload: self.payload() }
            }
            JoinMut => {
                let slot = self.slot(ex);
                OpKind::JoinMut {
                    slot,
                    lend: self.rng.chance(1, 2),
                    take: *self.rng.pick(&[1u16, 2, 3, 1000, 1000]),
                    acts: self.acts(ex, slot),
                }
            }
            EntriesOrInsert => {
                if ex.model.live_count() > 24 {
                    return None;
                }
                OpKind::EntriesOrInsert { slot: self.slot(ex), payload_base: self.payload() * 1000 }
            }
            RestrictRead => {
                let slot = self.slot(ex);
                let mut others = vec![];
                for _ in 0..self.rng.range(0, 3) {
                    if let Some(h) = self.any_handle(ex) {
                        others.push(h);
                    }
                }
                OpKind::RestrictRead {
                    slot,
                    lend: self.rng.chance(1, 2),
                    take: *self.rng.pick(&[1u16, 3, 1000]),
                    others,
                }
            }
            RestrictShared => {
                let slot = self.slot(ex);
                OpKind::RestrictShared {
                    slot,
                    take: *self.rng.pick(&[1u16, 3, 1000, 1000]),
                    acts: self.acts(ex, slot),
                }
            }
            RestrictExcl => {
                let slot = self.slot(ex);
                let mut others = vec![];
                for _ in 0..self.rng.range(0, 2) {
                    if let Some(h) = self.any_handle(ex) {
                        let m = match self.rng.below(3) {
                            0 => OtherMode::Read,
                            1 => OtherMode::Mut,
                            _ => OtherMode::MutWrite(self.payload()),
                        };
                        others.push((h, m));
                    }
                }
                OpKind::RestrictExcl {
                    slot,
                    take: *self.rng.pick(&[1u16, 2, 1000]),
                    acts: self.acts(ex, slot),
                    others,
                }
            }
            RegisterReader => OpKind::RegisterReader { slot: self.slot(ex) },
            SetEmission => OpKind::SetEmission { slot: self.slot(ex), on: self.rng.chance(1, 2) },
            LazyInsert => {
                let slot = self.slot(ex);
                OpKind::LazyInsert { slot, h: self.any_handle(ex)?, payload: self.payload() }
            }
            LazyInsertAll => {
                let slot = self.slot(ex);
                let mut items = vec![];
                for _ in 0..self.rng.range(0, 3) {
                    if let Some(h) = self.any_handle(ex) {
                        items.push((h, self.payload()));
                    }
                }
                OpKind::LazyInsertAll { slot, items }
            }
            LazyRemove => OpKind::LazyRemove { slot: self.slot(ex), h: self.any_handle(ex)? },
            LazyExec => OpKind::LazyExec { script: self.script(ex, 0), mutable: self.rng.chance(1, 3) },
            ChangeSet => {
                let mut pairs: Vec<(H, i64)> = vec![];
                for _ in 0..self.rng.range(1, 5) {
                    let h = if !pairs.is_empty() && self.rng.chance(1, 3) {
                        Some(self.rng.pick(&pairs).0)
                    } else {
                        self.any_handle(ex)
                    };
                    if let Some(h) = h {
                        pairs.push((h, self.payload()));
                    }
                }
                if pairs.is_empty() {
                    return None;
                }
                let consume = match self.rng.below(7) {
                    0 => CsConsume::ReadThenDrop,
                    1 => CsConsume::MutThenDrop,
                    2 => CsConsume::Full,
                    3 => CsConsume::Partial(self.rng.range(0, 2) as u8),
                    4 | 5 => CsConsume::Clear,
                    _ => CsConsume::Drop,
                };
                OpKind::ChangeSet { pairs, consume }
            }
            Observe => OpKind::Observe,
            StaleProbe => self.stale_probe(ex)?,
            Par => return None,
        })
    }

    // ---- parallel phases

    pub fn par_phase(&mut self, ex: &Exec) -> ParPhase {
        let ntasks = self.rng.range(2, 4) as usize;
        let uid = self.uid();
        let mut tasks = vec![];
        let mut all_uids: Vec<u32> = vec![];
        for _t in 0..ntasks {
            let nops = self.rng.range(1, 5) as usize;
            let mut ops: Vec<POp> = vec![];
            for _ in 0..nops {
                let u = self.uid();
                let own_created: Vec<u32> = ops
                    .iter()
                    .filter(|o| matches!(o.kind, POpKind::Create | POpKind::BuildEntity { .. } | POpKind::LazyCreate { .. } | POpKind::CreateIter(_)))
                    .map(|o| o.uid)
                    .collect();
                let pick_h = |g: &mut Gen| -> Option<H> {
                    match g.rng.below(10) {
                        0..=2 if !own_created.is_empty() => Some(H(*g.rng.pick(&own_created), 0)),
                        3 if !all_uids.is_empty() => Some(H(*g.rng.pick(&all_uids), 0)),
                        4 => g.dead(ex),
                        _ => g.live(ex),
                    }
                };
                let kind = match self.rng.below(20) {
                    0..=5 => POpKind::Create,
                    6 => POpKind::CreateIter(self.rng.range(1, 3) as u8),
                    7 => POpKind::BuildEntity { comps_none: true, dropped: self.rng.chance(1, 2) },
                    8 => POpKind::LazyCreate { comps: self.comps(ex, 2) },
                    9..=12 => match pick_h(self) {
                        Some(h) => POpKind::Delete(h),
                        None => POpKind::Create,
                    },
                    13..=14 => match pick_h(self) {
                        Some(h) => POpKind::IsAlive(h),
                        None => POpKind::Create,
                    },
                    15 => POpKind::JoinEntities,
                    16 => match pick_h(self) {
                        Some(h) => POpKind::Get(self.slot(ex), h),
                        None => POpKind::JoinEntities,
                    },
                    17 => match pick_h(self) {
                        Some(h) => POpKind::LazyInsert(self.slot(ex), h, self.payload()),
                        None => POpKind::LazyExecLog,
                    },
                    18 => match pick_h(self) {
                        Some(h) => POpKind::LazyRemove(self.slot(ex), h),
                        None => POpKind::LazyExecLog,
                    },
                    _ => POpKind::LazyExecLog,
                };
                if matches!(kind, POpKind::Create | POpKind::BuildEntity { .. } | POpKind::LazyCreate { .. } | POpKind::CreateIter(_)) {
                    all_uids.push(u);
                }
                ops.push(POp { uid: u, kind });
            }
            tasks.push(ops);
        }
        let policy = match self.rng.below(10) {
            0..=2 => Policy::Uniform,
            3..=4 => Policy::Sticky { stay_pct: 50 },
            5 => Policy::Sticky { stay_pct: 90 },
            6..=8 => Policy::Pct { d: self.rng.range(1, 3) as u8 },
            _ => Policy::RoundRobin,
        };
        let mut buggify = vec![];
        if self.rng.chance(1, 3) {
            for site in ["atomic_decrement.spurious", "atomic_increment.spurious"] {
                if self.rng.chance(1, 2) {
                    buggify.push((site.to_string(), *self.rng.pick(&[100u32, 300])));
                }
            }
        }
        ParPhase {
            uid,
            tasks,
            baton: BatonCfg {
                policy,
                seed: self.rng.next_u64(),
                est_len: 60,
                max_steps: 4000,
                buggify,
            },
            recorded: None,
        }
    }
}

pub const ENTRY_OPS: [EntryOp; 7] = [
    EntryOp::Get,
    EntryOp::GetMut,
    EntryOp::Insert,
    EntryOp::Remove,
    EntryOp::Replace,
    EntryOp::OrInsert,
    EntryOp::OrInsertWith,
];
