//! E1 worldsim: the interpreter. Applies every operation to the real `specs::World` and to the
//! reference model, compares the results (operation-by-operation refinement) and evaluates the
//! cross-invariants after every step. The first discrepancy ends the run.

use crate::comps::{slot_for, EntryOp, EntryOut, Ev, MutPlan, OtherMode, SlotOps, V};
use crate::ledger;
use crate::wcase::*;
use crate::wmodel::{ExpEv, LazyAct, Model};
use crate::wscript::{Ctx, LogEntry, Obs};
use specs::prelude::*;
use specs::world::EntitiesRes;
use std::collections::{BTreeMap, BTreeSet, HashMap};
use std::panic::{catch_unwind, AssertUnwindSafe};
use std::sync::{Arc, Mutex};

#[derive(Clone, Debug)]
pub struct Violation {
    pub props: Vec<String>,
    pub oracle: String,
    pub detail: String,
    pub at_uid: u32,
}

pub type R<T = ()> = Result<T, Violation>;

#[derive(Clone, Debug, Default)]
pub struct RunStats {
    pub ops: u64,
    pub skipped_ops: u64,
    pub creations: u64,
    pub index_reuses: u64,
    pub reuse_while_deferred_pending: u64,
    pub stale_probes: u64,
    pub stale_probes_reoccupied: u64,
    pub deletions_effective: u64,
    pub batch_failures: u64,
    pub maintains: u64,
    pub lazy_run: u64,
    pub lazy_nested: u64,
    pub lazy_on_dead_target: u64,
    pub events_checked: u64,
    pub values_created: u64,
    pub values_destroyed: u64,
    pub values_returned: u64,
    pub faults_armed: u64,
    pub faults_fired: u64,
    pub par_phases: u64,
    pub sched_steps: u64,
    pub sched_switches: u64,
    pub world_dropped_dirty: u64,
    pub probes: BTreeMap<String, u64>,
    pub model_states: Vec<u64>,
    pub sched_hashes: Vec<u64>,
    pub buggify_fired: BTreeMap<String, u64>,
    pub site_counts: BTreeMap<String, u64>,
    pub trace: crate::rng::TraceHash,
}

impl RunStats {
    pub fn probe(&mut self, name: &str) {
        *self.probes.entry(name.to_string()).or_insert(0) += 1;
    }
}

pub struct Exec {
    pub world: Option<World>,
    pub slots: Arc<Vec<Box<dyn SlotOps>>>,
    pub model: Model,
    pub ctx: Ctx,
    pub cfg: WCfg,
    pub stats: RunStats,
    pub cur_uid: u32,
    /// ids of values the harness knows specs may have leaked after an injected fault
    pub leaked_ok: BTreeSet<u64>,
    pub zst_leak_ok: bool,
    /// between a parallel phase and the end of the next maintain: aliveness mismatches also concern C10
    pub c10_window: bool,
    /// (op uid, number of destructor calls the model predicts for it) - fault enumeration sites
    pub fault_sites: Vec<(u32, u32)>,
    /// fault to inject while the world is dropped
    pub final_fault: Option<u16>,
    /// set when a fault interrupted the lazy queue: the run ends (world dropped) after this op
    pub abort_after_fault: bool,
    /// the operation being checked is a restricted-storage join (event discrepancies concern C13 too)
    pub restrict_op: bool,
    /// the operation in progress passed the handle of a dead entity to a storage access
    pub stale_op: bool,
    pub zst_dropped_seen: u64,
}

/// payload of the harness's own deliberate panic (cancellation of a caller between two calls)
pub struct HarnessCancel;

pub fn props(ps: &[&str]) -> Vec<String> {
    ps.iter().map(|s| s.to_string()).collect()
}

impl Exec {
    pub fn viol(&self, ps: &[&str], oracle: &str, detail: String) -> Violation {
        let mut ps: Vec<&str> = ps.to_vec();
        // once an injected destructor panic has been caught, "the world remains usable" is part
        // of C19: any later discrepancy in this run concerns it too
        if self.cfg.faults && self.stats.faults_fired > 0 && !ps.contains(&"C19") {
            ps.push("C19");
        }
        Violation {
            props: props(&ps),
            oracle: oracle.to_string(),
            detail,
            at_uid: self.cur_uid,
        }
    }

    pub fn new(cfg: &WCfg) -> R<Exec> {
        ledger::reset();
        let slots: Vec<Box<dyn SlotOps>> = cfg.slots.iter().map(|(k, _)| slot_for(*k)).collect();
        let slots = Arc::new(slots);
        let mut world = World::new();
        for (i, (_, path)) in cfg.slots.iter().enumerate() {
            slots[i].register(&mut world, *path);
        }
        let model = Model::new(cfg.slots.iter().map(|(k, _)| *k).collect());
        let ctx = Ctx {
            handles: Arc::new(Mutex::new(HashMap::new())),
            log: Arc::new(Mutex::new(vec![])),
            slots: slots.clone(),
        };
        let mut ex = Exec {
            world: Some(world),
            slots,
            model,
            ctx,
            cfg: cfg.clone(),
            stats: RunStats::default(),
            cur_uid: 0,
            leaked_ok: BTreeSet::new(),
            zst_leak_ok: false,
            c10_window: false,
            fault_sites: vec![],
            final_fault: None,
            abort_after_fault: false,
            restrict_op: false,
            stale_op: false,
            zst_dropped_seen: 0,
        };
        ex.prealloc()?;
        Ok(ex)
    }

    /// width knob: occupy a wide index space, then free all but a sparse subset
    fn prealloc(&mut self) -> R {
        let n = self.cfg.prealloc as usize;
        if n == 0 {
            return Ok(());
        }
        let keep_every = self.cfg.keep_every.max(1) as usize;
        let ents: Vec<Entity> = self.world.as_mut().unwrap().create_iter().take(n).collect();
        let mut kept = 0u16;
        let mut to_delete = vec![];
        for (i, &e) in ents.iter().enumerate() {
            if let Err((p, d)) = self.model.check_new_handle(e) {
                return Err(self.viol(&[p], "new-handle", d));
            }
            let keep = i % keep_every == 0 && (kept as u32) < if self.cfg.keep_cap == 0 { 160 } else { self.cfg.keep_cap };
            let hn = self.model.add_handle(e, true, H(0, if keep { kept } else { u16::MAX }));
            if keep {
                self.ctx.bind(H(0, kept), e);
                kept += 1;
            } else {
                to_delete.push((hn, e));
            }
        }
        let es: Vec<Entity> = to_delete.iter().map(|x| x.1).collect();
        let r = self.world.as_mut().unwrap().delete_entities(&es);
        if r.is_err() {
            return Err(self.viol(
                &["C02"],
                "batch-delete-result",
                "pre-allocation batch deletion of live entities failed".into(),
            ));
        }
        for (hn, _) in to_delete {
            self.model.kill(hn);
        }
        self.stats.probe("wide_index_space");
        Ok(())
    }

    pub fn w(&self) -> &World {
        self.world.as_ref().unwrap()
    }

    pub fn wm(&mut self) -> &mut World {
        self.world.as_mut().unwrap()
    }

    /// resolves a symbolic handle to (model handle number, entity)
    pub fn res(&self, h: H) -> Option<(usize, Entity)> {
        let e = self.ctx.resolve(h)?;
        let hn = self.model.lookup(e)?;
        Some((hn, e))
    }

    fn new_handle(&mut self, h: H, e: Entity, merged: bool, attached: &[(u8, i64)]) -> R<usize> {
        let in_flight = 0;
        if let Err((p, d)) = self.model.check_new_handle(e) {
            return Err(self.viol(&[p], "new-handle-unique", d));
        }
        if let Err(d) = self.model.check_index_bound(e, in_flight) {
            return Err(self.viol(&["C17"], "index-bound", d));
        }
        self.stats.creations += 1;
        self.stats.trace.add(((e.id() as u64) << 32) | e.gen().id() as u64);
        if e.gen().id() > 1 {
            self.stats.index_reuses += 1;
            if self
                .model
                .hs
                .iter()
                .rev()
                .take(64)
                .any(|i| !i.dead && (!i.merged || i.pending_kill))
            {
                self.stats.reuse_while_deferred_pending += 1;
            }
        }
        let hn = self.model.add_handle(e, merged, h);
        self.ctx.bind(h, e);
        // C05: a newly created entity has no component in any storage
        for s in 0..self.slots.len() {
            if attached.iter().any(|a| a.0 as usize == s) {
                continue;
            }
            let orphan = self.model.comps[s].contains_key(&e.id());
            if orphan {
                continue;
            }
            if self.slots[s].contains(self.w(), e) || self.slots[s].get(self.w(), e).is_some() {
                return Err(self.viol(
                    &["C05"],
                    "new-entity-empty",
                    format!(
                        "freshly created {:?} already has a component in slot {} ({})",
                        e,
                        s,
                        self.slots[s].kind().name()
                    ),
                ));
            }
        }
        Ok(hn)
    }

    fn model_attach(&mut self, slot: usize, hn: usize, v: V) {
        // builder `.with()`: insert on a live entity; a replaced value is dropped by specs
        if let Ok(Some(old)) = self.model.insert(slot, hn, v) {
            self.model.note_destroyed(slot, old);
        }
    }

    /// Applies one exclusive-phase operation. Panics escaping specs are violations (fault-free
    /// configuration) attributed to the operation's own properties.
    pub fn apply(&mut self, op: &Op) -> R {
        self.cur_uid = op.uid;
        self.stats.ops += 1;
        crate::util::probe_mark(&op_props(&op.kind));
        if self.cfg.faults {
            let n = crate::wfault::predict(self, op).len() as u32;
            if n > 0 {
                self.fault_sites.push((op.uid, n));
            }
            if op.fault.is_some() {
                return crate::wfault::apply_with_fault(self, op);
            }
        }
        let r = catch_unwind(AssertUnwindSafe(|| self.apply_inner(op)));
        match r {
            Ok(r) => r,
            Err(e) => {
                let msg = crate::util::panic_message(&e);
                let ps = op_props(&op.kind);
                Err(self.viol(
                    &ps,
                    "panic-escaped",
                    format!(
                        "operation {:?} panicked: {} (at {})",
                        op.kind,
                        msg,
                        crate::util::last_panic_location()
                    ),
                ))
            }
        }
    }

    pub fn apply_inner(&mut self, op: &Op) -> R {
        let state_props: Vec<&str> = match &op.kind {
            OpKind::CreateNow(comps) => {
                let mut b = self.world.as_mut().unwrap().create_entity();
                let mut ids = vec![];
                for &(s, p) in comps {
                    let (nb, id) = self.slots[s as usize].with_now(b, p);
                    b = nb;
                    ids.push(id);
                }
                let e = b.build();
                let hn = self.new_handle(H(op.uid, 0), e, true, comps)?;
                for (i, &(s, p)) in comps.iter().enumerate() {
                    self.model_attach(s as usize, hn, (ids[i], zp(&self.model, s, p)));
                }
                vec!["C05", "C04"]
            }
            OpKind::CreateIterNow(n) => {
                let es: Vec<Entity> = self.wm().create_iter().take(*n as usize).collect();
                for (k, e) in es.into_iter().enumerate() {
                    self.new_handle(H(op.uid, k as u16), e, true, &[])?;
                }
                vec!["C05"]
            }
            OpKind::BuilderDropped(comps) => {
                let mut b = self.world.as_mut().unwrap().create_entity();
                let e = b.entity;
                let mut ids = vec![];
                for &(s, p) in comps {
                    let (nb, id) = self.slots[s as usize].with_now(b, p);
                    b = nb;
                    ids.push(id);
                }
                drop(b);
                let hn = self.new_handle(H(op.uid, 0), e, true, comps)?;
                for (i, &(s, p)) in comps.iter().enumerate() {
                    self.model_attach(s as usize, hn, (ids[i], zp(&self.model, s, p)));
                }
                self.model.hs[hn].pending_kill = true;
                vec!["C05"]
            }
            OpKind::BuilderUnwound(comps) => {
                let mut ent: Option<Entity> = None;
                let mut ids: Vec<u64> = vec![];
                {
                    let world = self.world.as_mut().unwrap();
                    let slots = self.slots.clone();
                    let r = catch_unwind(AssertUnwindSafe(|| {
                        let mut b = world.create_entity();
                        ent = Some(b.entity);
                        for &(s, p) in comps {
                            let (nb, id) = slots[s as usize].with_now(b, p);
                            b = nb;
                            ids.push(id);
                        }
                        // the caller's code fails before `build()`: the builder is dropped by the
                        // unwinding
                        std::panic::panic_any(HarnessCancel);
                        #[allow(unreachable_code)]
                        drop(b);
                    }));
                    if let Err(e) = r {
                        if !e.is::<HarnessCancel>() {
                            std::panic::resume_unwind(e);
                        }
                    }
                }
                let Some(e) = ent else { return self.skip() };
                self.stats.probe("builder_dropped_by_unwinding");
                let hn = self.new_handle(H(op.uid, 0), e, true, comps)?;
                for (i, &(s, p)) in comps.iter().enumerate() {
                    if i < ids.len() {
                        self.model_attach(s as usize, hn, (ids[i], zp(&self.model, s, p)));
                    }
                }
                self.model.hs[hn].pending_kill = true;
                vec!["C05"]
            }
            OpKind::CreateDeferred {
                via,
                comps,
                dropped,
            } => {
                let (e, ids) = {
                    let w = self.world.as_ref().unwrap();
                    let ents = w.entities();
                    match via {
                        Via::Entities => (ents.create(), vec![]),
                        Via::BuildEntity => {
                            let mut b = ents.build_entity();
                            let e = b.entity;
                            let mut ids = vec![];
                            for &(s, p) in comps {
                                let (nb, id) = self.slots[s as usize].with_res(b, w, p);
                                b = nb;
                                ids.push(id);
                            }
                            if *dropped {
                                drop(b);
                            } else {
                                b.build();
                            }
                            (e, ids)
                        }
                        Via::LazyBuilder => {
                            let lazy = w.read_resource::<LazyUpdate>();
                            let mut b = lazy.create_entity(&ents);
                            let mut ids = vec![];
                            for &(s, p) in comps {
                                let (nb, id) = self.slots[s as usize].with_lazy(b, p);
                                b = nb;
                                ids.push(id);
                            }
                            (b.build(), ids)
                        }
                    }
                };
                let hn = self.new_handle(H(op.uid, 0), e, false, if *via == Via::BuildEntity { comps } else { &[] })?;
                match via {
                    Via::Entities => {}
                    Via::BuildEntity => {
                        for (i, &(s, p)) in comps.iter().enumerate() {
                            self.model_attach(s as usize, hn, (ids[i], zp(&self.model, s, p)));
                        }
                        if *dropped {
                            self.model.hs[hn].pending_kill = true;
                        }
                    }
                    Via::LazyBuilder => {
                        for (i, &(s, p)) in comps.iter().enumerate() {
                            self.model.lazy.push_back(LazyAct::Insert {
                                slot: s,
                                hn,
                                v: (ids[i], zp(&self.model, s, p)),
                            });
                        }
                    }
                }
                vec!["C05"]
            }
            OpKind::CreateIterDeferred(n) => {
                let es: Vec<Entity> = {
                    let ents = self.w().entities();
                    let v: Vec<Entity> = ents.create_iter().take(*n as usize).collect();
                    v
                };
                for (k, e) in es.into_iter().enumerate() {
                    self.new_handle(H(op.uid, k as u16), e, false, &[])?;
                }
                vec!["C05"]
            }
            OpKind::DeleteNow(h) => {
                let Some((hn, e)) = self.res(*h) else { return self.skip() };
                let r = self.wm().delete_entity(e);
                let exp_ok = self.model.alive(hn);
                if r.is_ok() != exp_ok {
                    return Err(self.viol(
                        &["C02"],
                        "delete-result",
                        format!(
                            "delete_entity({:?}) returned {:?} but the entity is {}",
                            e,
                            r.map_err(|e| e.to_string()),
                            if exp_ok { "alive" } else { "dead" }
                        ),
                    ));
                }
                if exp_ok {
                    self.model.kill(hn);
                    self.stats.deletions_effective += 1;
                }
                vec!["C05"]
            }
            OpKind::DeleteBatch(hs) => {
                let mut list = vec![];
                for h in hs {
                    if let Some(x) = self.res(*h) {
                        list.push(x);
                    }
                }
                if list.is_empty() {
                    return self.skip();
                }
                let es: Vec<Entity> = list.iter().map(|x| x.1).collect();
                let r = self.wm().delete_entities(&es);
                let mut exp: Result<(), usize> = Ok(());
                for (pos, (hn, _)) in list.iter().enumerate() {
                    if self.model.alive(*hn) {
                        self.model.kill(*hn);
                        self.stats.deletions_effective += 1;
                    } else {
                        exp = Err(pos);
                        self.stats.batch_failures += 1;
                        break;
                    }
                }
                let got: Result<(), usize> = r.as_ref().map(|_| ()).map_err(|e| e.1);
                if got != exp {
                    return Err(self.viol(
                        &["C02"],
                        "batch-delete-result",
                        format!(
                            "delete_entities({:?}) returned {:?}, expected {:?} (position of the first dead handle)",
                            es, got, exp
                        ),
                    ));
                }
                vec!["C05"]
            }
            OpKind::DeleteDeferred(h) => {
                let Some((hn, e)) = self.res(*h) else { return self.skip() };
                let r = {
                    let ents = self.w().entities();
                    let r = ents.delete(e);
                    r
                };
                let exp_ok = self.model.alive(hn);
                if r.is_ok() != exp_ok {
                    return Err(self.viol(
                        &["C02"],
                        "deferred-delete-result",
                        format!(
                            "Entities::delete({:?}) returned {:?} but the entity is {}",
                            e,
                            r.map_err(|e| e.to_string()),
                            if exp_ok { "alive" } else { "dead" }
                        ),
                    ));
                }
                if exp_ok {
                    self.model.hs[hn].pending_kill = true;
                }
                vec!["C05"]
            }
            OpKind::DeleteAll => {
                self.wm().delete_all();
                for hn in self.model.live_handles() {
                    self.model.kill(hn);
                    self.stats.deletions_effective += 1;
                }
                vec!["C05"]
            }
            OpKind::Maintain => {
                let r = self.maintain().and_then(|_| self.post(&["C09", "C05"]));
                self.c10_window = false;
                return r;
            }
            OpKind::Observe => vec!["C02"],
            other => return crate::wstorage::apply_storage_op(self, op.uid, other),
        };
        self.post(&state_props)
    }

    pub fn skip(&mut self) -> R {
        self.stats.skipped_ops += 1;
        Ok(())
    }

    // --------------------------------------------------------------------------------------------
    // maintain

    pub fn maintain(&mut self) -> R {
        // after a parallel phase, "every queued action has run exactly once" is C10's clause too
        let lp: Vec<&str> = if self.c10_window { vec!["C09", "C10"] } else { vec!["C09"] };
        self.stats.maintains += 1;
        self.ctx.log.lock().unwrap().clear();
        self.wm().maintain();
        let log: Vec<LogEntry> = std::mem::take(&mut *self.ctx.log.lock().unwrap());
        self.model.merge();
        let mut li = 0usize;
        let budget = self.model.lazy.len() + 64;
        let mut ran = 0usize;
        while let Some(act) = self.model.lazy.pop_front() {
            ran += 1;
            if ran > budget * 16 {
                break;
            }
            self.stats.lazy_run += 1;
            match act {
                LazyAct::Insert { slot, hn, v } => self.model_lazy_insert(slot as usize, hn, v),
                LazyAct::InsertAll { slot, items } => {
                    for (hn, v) in items {
                        self.model_lazy_insert(slot as usize, hn, v);
                    }
                }
                LazyAct::Remove { slot, hn } => {
                    if self.model.hs[hn].dead {
                        self.stats.lazy_on_dead_target += 1;
                    }
                    if let Some(v) = self.model.remove(slot as usize, hn) {
                        self.model.note_destroyed(slot as usize, v);
                    }
                }
                LazyAct::Exec { cid, script, depth } => {
                    let Some(entry) = log.get(li) else {
                        return Err(self.viol(
                            &lp,
                            "lazy-exactly-once",
                            format!("queued closure {:#x} did not run during maintain", cid),
                        ));
                    };
                    li += 1;
                    if entry.cid != cid {
                        return Err(self.viol(
                            &lp,
                            "lazy-order",
                            format!(
                                "closure {:#x} ran where closure {:#x} was next in queue order",
                                entry.cid, cid
                            ),
                        ));
                    }
                    if depth > 0 {
                        self.stats.lazy_nested += 1;
                    }
                    self.model_script(cid, &script, &entry.obs, depth)?;
                }
                LazyAct::ParLog { cid } => {
                    let Some(entry) = log.get(li) else {
                        return Err(self.viol(
                            &["C09", "C10"],
                            "lazy-exactly-once",
                            format!("closure {:#x} queued by a parallel task did not run", cid),
                        ));
                    };
                    li += 1;
                    if entry.cid != cid {
                        return Err(self.viol(
                            &["C09", "C10"],
                            "lazy-order",
                            format!(
                                "closure {:#x} ran where {:#x} (queued from a task) was next",
                                entry.cid, cid
                            ),
                        ));
                    }
                }
            }
        }
        if li != log.len() {
            return Err(self.viol(
                &lp,
                "lazy-exactly-once",
                format!(
                    "{} closure executions were logged but only {} were queued (closure {:#x} ran unexpectedly)",
                    log.len(),
                    li,
                    log[li].cid
                ),
            ));
        }
        let left = self.w().read_resource::<LazyUpdate>().verif_queue_len();
        if left != 0 {
            return Err(self.viol(
                &lp,
                "lazy-queue-empty",
                format!("{} actions are still queued after maintain returned", left),
            ));
        }
        Ok(())
    }

    fn model_lazy_insert(&mut self, slot: usize, hn: usize, v: V) {
        if self.model.hs[hn].dead {
            self.stats.lazy_on_dead_target += 1;
        }
        if let Ok(Some(old)) = self.model.insert(slot, hn, v) {
            self.model.note_destroyed(slot, old);
        }
    }

    fn model_script(&mut self, cid: u32, script: &[SOp], obs: &[Obs], depth: u8) -> R {
        if obs.len() != script.len() {
            return Err(self.viol(
                &["C09"],
                "lazy-closure-complete",
                format!("closure {:#x} logged {} of {} steps", cid, obs.len(), script.len()),
            ));
        }
        let mut created: u16 = 0;
        for (j, (op, ob)) in script.iter().zip(obs.iter()).enumerate() {
            match (op, ob) {
                (_, Obs::Skipped) => {}
                (SOp::ObserveAlive(hs), Obs::Alive(got)) => {
                    for (h, g) in hs.iter().zip(got.iter()) {
                        let (Some((hn, e)), Some((a, b))) = (self.res(*h), g) else { continue };
                        let ea = self.model.alive(hn);
                        let eb = ea && self.model.hs[hn].merged;
                        if (*a, *b) != (ea, eb) {
                            return Err(self.viol(
                                &["C09", "C02"],
                                "lazy-observes-merged-state",
                                format!(
                                    "inside closure {:#x}: is_alive({:?}) = (entities {}, world {}), expected ({}, {}) - closures must run after deferred creations/deletions took effect",
                                    cid, e, a, b, ea, eb
                                ),
                            ));
                        }
                    }
                }
                (SOp::ObserveComp(slot, hs), Obs::Comp(got)) => {
                    for (h, g) in hs.iter().zip(got.iter()) {
                        let (Some((hn, e)), Some(g)) = (self.res(*h), g) else { continue };
                        let exp = self.model.get(*slot as usize, hn);
                        if *g != exp {
                            return Err(self.viol(
                                &["C09", "C05"],
                                "lazy-observes-purged-state",
                                format!(
                                    "inside closure {:#x}: slot {} get({:?}) = {:?}, expected {:?}",
                                    cid, slot, e, g, exp
                                ),
                            ));
                        }
                    }
                }
                (SOp::ObserveJoin, Obs::Join(got)) => {
                    let exp: Vec<Entity> = self
                        .model
                        .live_handles()
                        .iter()
                        .map(|&hn| self.model.hs[hn].ent)
                        .collect();
                    if *got != exp {
                        return Err(self.viol(
                            &["C09", "C02"],
                            "lazy-observes-merged-state",
                            format!(
                                "inside closure {:#x}: entities join = {:?}, expected {:?}",
                                cid, got, exp
                            ),
                        ));
                    }
                }
                (SOp::CreateNow(comps), Obs::Created(e, ids)) => {
                    let hn = self.new_handle_in_closure(H(cid, created), *e, true)?;
                    created += 1;
                    for (i, &(s, p)) in comps.iter().enumerate() {
                        self.model_attach(s as usize, hn, (ids[i], zp(&self.model, s, p)));
                    }
                }
                (SOp::CreateDeferred, Obs::CreatedDeferred(e)) => {
                    self.new_handle_in_closure(H(cid, created), *e, false)?;
                    created += 1;
                }
                (SOp::DeleteNow(h), Obs::DeletedNow(ok)) => {
                    let Some((hn, e)) = self.res(*h) else { continue };
                    let exp = self.model.alive(hn);
                    if *ok != exp {
                        return Err(self.viol(
                            &["C02"],
                            "delete-result",
                            format!("inside closure {:#x}: delete_entity({:?}) ok={} expected {}", cid, e, ok, exp),
                        ));
                    }
                    if exp {
                        self.model.kill(hn);
                    }
                }
                (SOp::DeleteDeferred(h), Obs::DeletedDeferred(ok)) => {
                    let Some((hn, e)) = self.res(*h) else { continue };
                    let exp = self.model.alive(hn);
                    if *ok != exp {
                        return Err(self.viol(
                            &["C02"],
                            "deferred-delete-result",
                            format!("inside closure {:#x}: Entities::delete({:?}) ok={} expected {}", cid, e, ok, exp),
                        ));
                    }
                    if exp {
                        self.model.hs[hn].pending_kill = true;
                    }
                }
                (SOp::Insert(slot, h, p), Obs::Inserted(id, r)) => {
                    let Some((hn, e)) = self.res(*h) else { continue };
                    let s = *slot as usize;
                    let dead = self.model.hs[hn].dead;
                    let exp = self.model.insert(s, hn, (*id, zp(&self.model, *slot, *p)));
                    if *r != exp {
                        return Err(self.viol(
                            if dead { &["C03"] } else { &["C04"] },
                            "insert-result",
                            format!("inside closure {:#x}: insert({:?}) = {:?}, expected {:?}", cid, e, r, exp),
                        ));
                    }
                }
                (SOp::Remove(slot, h), Obs::Removed(r)) => {
                    let Some((hn, e)) = self.res(*h) else { continue };
                    let dead = self.model.hs[hn].dead;
                    let exp = self.model.remove(*slot as usize, hn);
                    if *r != exp {
                        return Err(self.viol(
                            if dead { &["C03"] } else { &["C04"] },
                            "remove-result",
                            format!("inside closure {:#x}: remove({:?}) = {:?}, expected {:?}", cid, e, r, exp),
                        ));
                    }
                }
                (SOp::Queue(inner), Obs::Queued(ncid)) => {
                    debug_assert_eq!(*ncid, crate::wmodel::nested_cid(cid, j));
                    self.model.lazy.push_back(LazyAct::Exec {
                        cid: *ncid,
                        script: inner.clone(),
                        depth: depth + 1,
                    });
                }
                (o, b) => {
                    return Err(self.viol(
                        &["C09"],
                        "lazy-closure-complete",
                        format!("closure {:#x}: step {:?} logged {:?}", cid, o, b),
                    ))
                }
            }
        }
        Ok(())
    }

    fn new_handle_in_closure(&mut self, h: H, e: Entity, merged: bool) -> R<usize> {
        if let Err((p, d)) = self.model.check_new_handle(e) {
            return Err(self.viol(&[p], "new-handle-unique", d));
        }
        if let Err(d) = self.model.check_index_bound(e, 0) {
            return Err(self.viol(&["C17"], "index-bound", d));
        }
        self.stats.creations += 1;
        let hn = self.model.add_handle(e, merged, h);
        self.ctx.bind(h, e);
        Ok(hn)
    }

    // --------------------------------------------------------------------------------------------
    // cross-invariants after every step

    pub fn post(&mut self, state_props: &[&str]) -> R {
        if self.cfg.faults && self.stats.faults_fired > 0 {
            let mut ps = state_props.to_vec();
            ps.push("C19");
            crate::util::probe_mark(&ps);
        } else {
            crate::util::probe_mark(state_props);
        }
        // order matters for attribution: observable state first (the operation's own property),
        // then event streams, then the value ledger
        self.check_double_drops()?;
        self.check_aliveness()?;
        self.check_storages(state_props)?;
        self.check_events()?;
        self.check_ledger()?;
        let sh = self.model.state_hash();
        self.stats.trace.add(sh);
        self.stats.model_states.push(sh);
        Ok(())
    }

    pub fn check_double_drops(&mut self) -> R {
        let anomalies = ledger::take_anomalies();
        if let Some(a) = anomalies.first() {
            let ps: &[&str] = if self.cfg.faults { &["C19", "C08"] } else { &["C08"] };
            return Err(self.viol(ps, "ledger-exactly-once", a.clone()));
        }
        Ok(())
    }

    pub fn check_ledger(&mut self) -> R {
        let anomalies = ledger::take_anomalies();
        if let Some(a) = anomalies.first() {
            let ps: &[&str] = if self.cfg.faults { &["C19", "C08"] } else { &["C08"] };
            return Err(self.viol(ps, "ledger-exactly-once", a.clone()));
        }
        let mut drops: Vec<u64> = ledger::take_drops()
            .into_iter()
            .filter(|&id| !ledger::is_filler(id) || self.model_knows_value(id))
            .filter(|id| !(self.leaked_ok.contains(id) && !self.model.exp_destroyed.contains(id)))
            .collect();
        drops.sort();
        let mut exp = std::mem::take(&mut self.model.exp_destroyed);
        exp.sort();
        self.stats.values_destroyed += drops.len() as u64;
        if drops != exp {
            let extra: Vec<&u64> = drops.iter().filter(|d| !exp.contains(d)).collect();
            let missing: Vec<&u64> = exp.iter().filter(|d| !drops.contains(d)).collect();
            return Err(self.viol(
                &["C08"],
                "destroyed-set",
                format!(
                    "values destroyed by this operation: {:?}; expected {:?} (unexpectedly destroyed {:?}, not destroyed {:?})",
                    drops, exp, extra, missing
                ),
            ));
        }
        let (_, zd, _) = ledger::zst_counts();
        let zdelta = zd - self.zst_dropped_seen;
        self.zst_dropped_seen = zd;
        let zexp = std::mem::take(&mut self.model.exp_zst_destroyed);
        if zdelta != zexp {
            return Err(self.viol(
                &["C08"],
                "destroyed-set",
                format!(
                    "{} zero-sized components destroyed by this operation, expected {}",
                    zdelta, zexp
                ),
            ));
        }
        Ok(())
    }

    /// default-constructed components (get_mut_or_default) carry filler ids but are real values
    fn model_knows_value(&self, id: u64) -> bool {
        self.model.exp_destroyed.contains(&id)
            || self
                .model
                .comps
                .iter()
                .any(|m| m.values().any(|v| v.0 == id))
    }

    /// A component sitting at an index that the real entities resource does not list (neither
    /// alive nor awaiting maintain). Only the real world is consulted, never the model.
    pub fn orphan_component(&self) -> Option<String> {
        let w = self.world.as_ref()?;
        let live: std::collections::BTreeSet<u32> = {
            let ents = w.entities();
            let v: std::collections::BTreeSet<u32> = (&ents).join().map(|e| e.id()).collect();
            v
        };
        for s in 0..self.slots.len() {
            for i in self.slots[s].mask(w) {
                if !live.contains(&i) && i != crate::comps::HUGE_INDEX {
                    return Some(format!(
                        "slot {} ({}) still holds a component at index {}, which belongs to no entity the world reports as alive or awaiting maintain (not purged)",
                        s,
                        self.slots[s].kind().name(),
                        i
                    ));
                }
            }
        }
        None
    }

    pub fn sample_handles(&self) -> Vec<usize> {
        let n = self.model.hs.len();
        if n <= 96 {
            return (0..n).collect();
        }
        let mut v: Vec<usize> = (n - 40..n).collect();
        let mut x = (self.cur_uid as u64).wrapping_mul(0x9E37_79B9_7F4A_7C15) ^ n as u64;
        for _ in 0..40 {
            v.push((crate::rng::splitmix(&mut x) % (n as u64 - 40)) as usize);
        }
        // plus every live handle if there are few
        if self.model.occ.len() <= 96 {
            v.extend(self.model.live_handles());
        }
        v.sort();
        v.dedup();
        v
    }

    pub fn check_aliveness(&mut self) -> R {
        let ap: Vec<&str> = if self.c10_window { vec!["C02", "C10"] } else { vec!["C02"] };
        let sample = self.sample_handles();
        {
            let w = self.w();
            let ents = w.entities();
            for &hn in &sample {
                let i = &self.model.hs[hn];
                let a = ents.is_alive(i.ent);
                let b = w.is_alive(i.ent);
                let ea = !i.dead;
                let eb = ea && i.merged;
                if a != ea {
                    return Err(self.viol(
                        &ap,
                        "entities-is-alive",
                        format!(
                            "Entities::is_alive({:?}) = {}, expected {} (merged={}, pending_kill={})",
                            i.ent, a, ea, i.merged, i.pending_kill
                        ),
                    ));
                }
                if b != eb {
                    return Err(self.viol(
                        &ap,
                        "world-is-alive",
                        format!(
                            "World::is_alive({:?}) = {}, expected {} (alive={}, merged={})",
                            i.ent, b, eb, ea, i.merged
                        ),
                    ));
                }
            }
        }
        // the entities join: exactly the not-yet-dead entities, ascending, current handles
        let wide = self.model.hs.len() > 2048;
        if !wide || self.cur_uid % 8 == 0 {
            let got: Vec<Entity> = {
                let ents = self.w().entities();
                let v: Vec<Entity> = (&ents).join().collect();
                v
            };
            for e in &got {
                self.stats.trace.add(((e.id() as u64) << 32) | e.gen().id() as u64);
            }
            let exp: Vec<Entity> = self
                .model
                .occ
                .values()
                .map(|&hn| self.model.hs[hn].ent)
                .collect();
            if got != exp {
                let d = first_diff(&got, &exp);
                return Err(self.viol(
                    &ap,
                    "entities-join",
                    format!(
                        "(&entities).join() yields {} entities, expected {}; first difference at position {}: got {:?}, expected {:?}",
                        got.len(), exp.len(), d, got.get(d), exp.get(d)
                    ),
                ));
            }
        }
        Ok(())
    }

    pub fn check_storages(&mut self, ps: &[&str]) -> R {
        for s in 0..self.slots.len() {
            let kind = self.slots[s].kind();
            let mask = self.slots[s].mask(self.w());
            let exp_mask: Vec<u32> = self.model.comps[s].keys().copied().collect();
            if mask != exp_mask {
                let extra: Vec<&u32> = mask.iter().filter(|i| !exp_mask.contains(i)).collect();
                let missing: Vec<&u32> = exp_mask.iter().filter(|i| !mask.contains(i)).collect();
                return Err(self.viol(
                    ps,
                    "storage-membership",
                    format!(
                        "slot {} ({}): mask has unexpected indices {:?} and lacks {:?}",
                        s,
                        kind.name(),
                        extra,
                        missing
                    ),
                ));
            }
            let cnt = self.slots[s].count(self.w());
            let emp = self.slots[s].is_empty(self.w());
            if cnt != exp_mask.len() || emp != exp_mask.is_empty() {
                return Err(self.viol(
                    ps,
                    "storage-count",
                    format!(
                        "slot {} ({}): count {} is_empty {} but {} members expected",
                        s,
                        kind.name(),
                        cnt,
                        emp,
                        exp_mask.len()
                    ),
                ));
            }
            let dump = self.slots[s].dump(self.w());
            for (i, v) in &dump {
                self.stats.trace.add(((*i as u64) << 40) ^ (v.0 << 20) ^ v.1 as u64);
            }
            let exp_dump: Vec<(u32, V)> =
                self.model.comps[s].iter().map(|(i, v)| (*i, *v)).collect();
            if dump != exp_dump {
                let d = first_diff(&dump, &exp_dump);
                return Err(self.viol(
                    ps,
                    "storage-values",
                    format!(
                        "slot {} ({}): join yields {:?} at position {}, expected {:?}",
                        s,
                        kind.name(),
                        dump.get(d),
                        d,
                        exp_dump.get(d)
                    ),
                ));
            }
            // every value read is, per the ledger, still in the world
            if !kind.zst() {
                for (i, v) in &dump {
                    if ledger::state(v.0) != Some(ledger::VState::Live) {
                        let pp: &[&str] = if self.cfg.faults { &["C19", "C08"] } else { &["C08"] };
                        return Err(self.viol(
                            pp,
                            "read-of-dead-value",
                            format!(
                                "slot {} index {}: lookup exposes value {} whose ledger state is {:?}",
                                s,
                                i,
                                v.0,
                                ledger::state(v.0)
                            ),
                        ));
                    }
                }
            }
            // handle-taking lookups for every member (through its occupant's handle)
            if exp_dump.len() <= 128 {
                for (i, v) in &exp_dump {
                    if let Some(&hn) = self.model.occ.get(i) {
                        let e = self.model.hs[hn].ent;
                        let g = self.slots[s].get(self.w(), e);
                        let c = self.slots[s].contains(self.w(), e);
                        if g != Some(*v) || !c {
                            return Err(self.viol(
                                ps,
                                "storage-lookup",
                                format!(
                                    "slot {} ({}): get({:?}) = {:?}, contains = {}, expected {:?}",
                                    s,
                                    kind.name(),
                                    e,
                                    g,
                                    c,
                                    v
                                ),
                            ));
                        }
                    }
                }
            }
            if let Some(Err(msg)) = self.slots[s].dense_check(self.w()) {
                // early warning only: never reported by itself
                self.stats.probe("dense_selfcheck_warning");
                let _ = msg;
            }
        }
        Ok(())
    }

    pub fn check_events(&mut self) -> R {
        for s in 0..self.slots.len() {
            if !self.model.track[s].reader {
                continue;
            }
            let real = self.slots[s].read_events(self.w());
            let exp = self.model.take_expected_events(s);
            self.stats.events_checked += real.len() as u64;
            for ev in &real {
                self.stats.trace.add(match ev {
                    Ev::Ins(i) => 0x1000_0000 | *i as u64,
                    Ev::Mod(i) => 0x2000_0000 | *i as u64,
                    Ev::Rem(i) => 0x3000_0000 | *i as u64,
                });
            }
            if !match_events(&real, &exp) {
                return Err(self.viol(
                    &{
                        let mut ps = vec!["C12"];
                        if self.restrict_op {
                            ps.push("C13");
                        }
                        if self.stale_op {
                            // an event nobody asked for right after a dead handle was used: the
                            // access reached the storage although the handle is stale
                            ps.push("C03");
                        }
                        ps
                    },
                    "event-stream",
                    format!(
                        "slot {} ({}): events {:?}, expected {:?} (must=true are demanded, must=false are allowed)",
                        s,
                        self.slots[s].kind().name(),
                        real,
                        exp
                    ),
                ));
            }
            let t = &mut self.model.track[s];
            for ev in &real {
                match ev {
                    Ev::Ins(i) => {
                        t.replayed.insert(*i);
                    }
                    Ev::Rem(i) => {
                        t.replayed.remove(i);
                    }
                    Ev::Mod(_) => {}
                }
            }
            if t.replay_valid && t.emission_always_on() {
                let mask: BTreeSet<u32> = self.slots[s].mask(self.w()).into_iter().collect();
                if mask != self.model.track[s].replayed {
                    return Err(self.viol(
                        &["C12"],
                        "event-replay-membership",
                        format!(
                            "slot {}: replaying Inserted/Removed over the membership at registration gives {:?}, the mask is {:?}",
                            s, self.model.track[s].replayed, mask
                        ),
                    ));
                }
            }
        }
        Ok(())
    }

    // --------------------------------------------------------------------------------------------
    // the end of the world

    /// Drops the world (possibly mid-frame: the library's equivalent of a crash before flush) and
    /// settles the ledger.
    pub fn finish(&mut self) -> R {
        self.cur_uid = u32::MAX;
        crate::util::probe_mark(if self.cfg.faults { &["C08", "C19"] } else { &["C08"] });
        let dirty = !self.model.lazy.is_empty()
            || self
                .model
                .live_handles()
                .iter()
                .any(|&hn| !self.model.hs[hn].merged || self.model.hs[hn].pending_kill);
        if dirty {
            self.stats.world_dropped_dirty += 1;
        }
        let in_world = self.model.values_in_world();
        if self.cfg.faults {
            let ids: Vec<u64> = in_world.iter().copied().collect();
            if !ids.is_empty() {
                self.fault_sites.push((u32::MAX, ids.len() as u32));
                if let Some(k) = self.final_fault {
                    ledger::arm_fault(ids[k as usize % ids.len()]);
                    self.stats.faults_armed += 1;
                }
            }
        }
        let w = self.world.take().unwrap();
        let r = catch_unwind(AssertUnwindSafe(move || drop(w)));
        if let Err(e) = r {
            let msg = crate::util::panic_message(&e);
            if !(self.cfg.faults && msg.contains(ledger::FAULT_MSG)) {
                return Err(self.viol(
                    &["C08"],
                    "panic-escaped",
                    format!("dropping the world panicked: {}", msg),
                ));
            }
        }
        if ledger::disarm() {
            self.stats.faults_fired += 1;
            self.stats.probe("fault_fired_during_world_teardown");
        }
        let anomalies = ledger::take_anomalies();
        if let Some(a) = anomalies.first() {
            let ps: &[&str] = if self.cfg.faults { &["C19", "C08"] } else { &["C08"] };
            return Err(self.viol(ps, "ledger-exactly-once", a.clone()));
        }
        let drops: BTreeSet<u64> = ledger::take_drops().into_iter().collect();
        let live: Vec<u64> = ledger::live_ids();
        if !self.cfg.faults {
            let not_destroyed: Vec<&u64> = in_world.iter().filter(|id| !drops.contains(id)).collect();
            if !not_destroyed.is_empty() || !live.is_empty() {
                return Err(self.viol(
                    &["C08"],
                    "leak-at-world-drop",
                    format!(
                        "after the world was dropped, values {:?} were never destroyed (still live per ledger: {:?})",
                        not_destroyed, live
                    ),
                ));
            }
            let fillers = ledger::live_fillers();
            if fillers != 0 {
                return Err(self.viol(
                    &["C08"],
                    "leak-at-world-drop",
                    format!("{} default-filler values were never destroyed", fillers),
                ));
            }
            let (c, d, r) = ledger::zst_counts();
            if c != d + r {
                return Err(self.viol(
                    &["C08"],
                    "zst-conservation",
                    format!(
                        "zero-sized components: {} created, {} destroyed, {} returned",
                        c, d, r
                    ),
                ));
            }
        }
        Ok(())
    }
}

impl crate::wmodel::TrackModel {
    pub fn emission_always_on(&self) -> bool {
        // membership replay is only meaningful if no event was suppressed since registration
        !self.emission_was_off
    }
}

/// payload as the model sees it (zero-sized components carry none)
pub fn zp(m: &Model, slot: u8, p: i64) -> i64 {
    if m.kinds[slot as usize].zst() {
        0
    } else {
        p
    }
}

pub fn first_diff<T: PartialEq>(a: &[T], b: &[T]) -> usize {
    let n = a.len().min(b.len());
    for i in 0..n {
        if a[i] != b[i] {
            return i;
        }
    }
    n
}

/// Real events against expected: consecutive repeats of the same `Modified(i)` collapse (several
/// mutable dereferences legitimately give several events); `must=false` entries are optional.
pub fn match_events(real: &[Ev], exp: &[ExpEv]) -> bool {
    let mut r: Vec<Ev> = vec![];
    for &e in real {
        if matches!(e, Ev::Mod(_)) && r.last() == Some(&e) {
            continue;
        }
        r.push(e);
    }
    let mut x: Vec<ExpEv> = vec![];
    for &e in exp {
        if let Some(l) = x.last_mut() {
            if matches!(e.ev, Ev::Mod(_)) && l.ev == e.ev {
                l.must |= e.must;
                continue;
            }
        }
        x.push(e);
    }
    // the removal events of one operation (a batch deletion, delete_all, the purge of a maintain)
    // may come in any order relative to each other: the property fixes operation order, not the
    // order inside one operation - so maximal runs of `Removed` are compared as sets
    fn sort_rem_runs<T>(v: &mut [T], is_rem: impl Fn(&T) -> Option<u32>) {
        let mut i = 0;
        while i < v.len() {
            if is_rem(&v[i]).is_some() {
                let mut j = i;
                while j < v.len() && is_rem(&v[j]).is_some() {
                    j += 1;
                }
                v[i..j].sort_by_key(|e| is_rem(e).unwrap());
                i = j;
            } else {
                i += 1;
            }
        }
    }
    sort_rem_runs(&mut r, |e| if let Ev::Rem(i) = e { Some(*i) } else { None });
    sort_rem_runs(&mut x, |e| if let Ev::Rem(i) = e.ev { Some(i) } else { None });
    // dynamic programming over (i, j) is overkill: optional entries are only ever `Modified`, and
    // a greedy match is exact because an optional entry is never followed by an equal entry.
    let mut i = 0;
    for e in &x {
        if i < r.len() && r[i] == e.ev {
            i += 1;
        } else if e.must {
            return false;
        }
    }
    i == r.len()
}

/// the properties an operation's own result belongs to (used for escaped panics)
pub fn op_props(k: &OpKind) -> Vec<&'static str> {
    use OpKind::*;
    match k {
        CreateNow(_) | CreateIterNow(_) | CreateIterDeferred(_) | CreateDeferred { .. } => {
            vec!["C01", "C02"]
        }
        BuilderDropped(_) | BuilderUnwound(_) => vec!["C01", "C02"],
        DeleteNow(_) | DeleteBatch(_) | DeleteDeferred(_) | DeleteAll => vec!["C02", "C05"],
        Maintain => vec!["C09", "C02", "C05"],
        LazyInsert { .. } | LazyInsertAll { .. } | LazyRemove { .. } | LazyExec { .. } => {
            vec!["C09"]
        }
        RestrictRead { .. } | RestrictShared { .. } | RestrictExcl { .. } => vec!["C13"],
        RegisterReader { .. } | SetEmission { .. } => vec!["C12"],
        ChangeSet { .. } => vec!["C08"],
        Observe => vec!["C02"],
        ByRef(inner) => op_props(inner),
        _ => vec!["C04", "C08"],
    }
}

#[allow(dead_code)]
fn _u(_: &EntitiesRes, _: EntryOp, _: EntryOut, _: MutPlan, _: OtherMode) {}
