//! The runner: `check <id> <tier>` spawns one worker process per core with a disjoint slice of run
//! indices, aggregates their reports as sets (so evidence does not depend on the worker count),
//! verifies a minimised replay in a fresh process and writes the evidence file.

use crate::engine::{Engine, Report, Viol};
use crate::rng::{hash_str, mix};
use serde_json::{json, Value};
use std::collections::{BTreeMap, BTreeSet};
use std::io::{BufRead, BufReader, Write};
use std::process::{Command, Stdio};
use std::sync::mpsc;
use std::time::{Duration, Instant};

pub const DEFAULT_SEED: u64 = 20_260_926;
pub const VERIF_DIR: &str = "/verif";

#[derive(Clone, Debug)]
pub struct Part {
    pub engine: &'static str,
    pub profile: &'static str,
    pub quick: u64,
    pub thorough: u64,
}

pub struct Plan {
    pub level: &'static str,
    pub parts: Vec<Part>,
    pub assumptions: Vec<&'static str>,
    /// C20: additionally compare per-seed transcripts between two batches of worker processes
    pub cross_process: bool,
    /// thorough tier only: scenarios of /verif/miri run under Miri's seeded scheduler
    pub miri: Vec<MiriSpec>,
}

#[derive(Clone, Debug)]
pub struct MiriSpec {
    pub args: Vec<&'static str>,
    pub seeds: u32,
}

pub fn engines() -> Vec<Box<dyn Engine>> {
    crate::all_engines()
}

pub fn engine(name: &str) -> Box<dyn Engine> {
    engines()
        .into_iter()
        .find(|e| e.name() == name)
        .unwrap_or_else(|| panic!("unknown engine {}", name))
}

pub fn run_seed_for(base: u64, engine: &str, profile: &str, i: u64) -> u64 {
    mix(&[base, hash_str(engine), hash_str(profile), i])
}

// ------------------------------------------------------------------------------------------------
// worker

pub fn worker_main(args: &[String]) -> i32 {
    // worker <prop> <engine> <profile> <base_seed> <from> <to> [trace]
    let prop = &args[0];
    let eng = engine(&args[1]);
    let profile = &args[2];
    let base: u64 = args[3].parse().unwrap();
    let from: u64 = args[4].parse().unwrap();
    let to: u64 = args[5].parse().unwrap();
    let want_trace = args.get(6).map(|s| s == "trace").unwrap_or(false);
    // Process recycling: a long slice is handed to short-lived child workers one chunk at a time
    // (their output goes straight to the parent's pipe). Memory that the code under test - or a
    // dependency such as a never-started rayon pool - does not give back cannot accumulate over
    // millions of runs this way.
    const CHUNK: u64 = 2000;
    if to - from > CHUNK {
        let exe = std::env::current_exe().expect("current_exe");
        let mut start = from;
        while start < to {
            let end = (start + CHUNK).min(to);
            let mut cmd = Command::new(&exe);
            cmd.arg("worker")
                .arg(prop)
                .arg(&args[1])
                .arg(profile)
                .arg(base.to_string())
                .arg(start.to_string())
                .arg(end.to_string());
            if want_trace {
                cmd.arg("trace");
            }
            let st = cmd.stdout(Stdio::inherit()).stderr(Stdio::null()).status();
            match st {
                Ok(s) if s.success() => {}
                Ok(s) if s.code() == Some(3) => return 3,
                Ok(s) => {
                    // the chunk worker died: die the same way so that the parent attributes the
                    // crash to the last announced run
                    eprintln!("chunk worker died: {:?}", s);
                    std::process::exit(101);
                }
                Err(_) => std::process::exit(101),
            }
            start = end;
        }
        return 0;
    }
    let out = std::io::stdout();
    let mut counters: BTreeMap<String, u64> = BTreeMap::new();
    let mut sets: BTreeMap<String, BTreeSet<u64>> = BTreeMap::new();
    let mut nontrivial: BTreeSet<u64> = BTreeSet::new();
    let mut samples: Vec<Value> = vec![];
    let mut foreign: BTreeMap<String, u64> = BTreeMap::new();
    let mut foreign_example: BTreeMap<String, String> = BTreeMap::new();
    let mut trace: Vec<(u64, u64)> = vec![];
    let mut runs = 0u64;
    let mut evals = 0u64;
    let mut found = false;
    for i in from..to {
        {
            let mut o = out.lock();
            let _ = writeln!(o, "S {}", i);
            let _ = o.flush();
        }
        let seed = run_seed_for(base, eng.name(), profile, i);
        let want_case = samples.len() < 2;
        let rep: Report = eng.run_seed(profile, seed, prop, want_case);
        runs += 1;
        evals += rep.executions.max(1);
        for (k, v) in &rep.counters {
            *counters.entry(k.clone()).or_insert(0) += v;
        }
        for (k, hs) in &rep.sets {
            let s = sets.entry(k.clone()).or_default();
            for h in hs {
                // 1/16 sample of the hash space keeps reports small; scaled back by the parent
                if h % 16 == 0 {
                    s.insert(*h);
                }
            }
        }
        if want_trace {
            trace.push((i, rep.trace_hash));
        }
        if let Some(h) = rep.nontrivial {
            nontrivial.insert(h);
            if samples.len() < 2 {
                match &rep.case {
                    Some(c) => samples.push(json!({"run": i, "seed": seed, "case": c})),
                    None => samples.push(json!({"run": i, "seed": seed, "engine": eng.name(), "profile": profile, "trace_hash": rep.trace_hash, "counters": rep.counters})),
                }
            }
        }
        if let Some(v) = &rep.violation {
            if v.concerns(prop) {
                // minimise, persist, report
                let case = rep.case.clone().unwrap_or(Value::Null);
                let min = if case.is_null() {
                    case
                } else {
                    eng.shrink(case, prop, &v.oracle)
                };
                let after = if min.is_null() {
                    v.clone()
                } else {
                    eng.replay(&min, prop).violation.unwrap_or_else(|| v.clone())
                };
                let path = write_replay(prop, eng.name(), profile, seed, &after, &min);
                let mut o = out.lock();
                let _ = writeln!(
                    o,
                    "V {}",
                    json!({"i": i, "seed": seed, "oracle": after.oracle, "detail": after.detail, "props": after.props, "replay": path,
                           "from": from, "base": base, "engine": eng.name(), "profile": profile,
                           "orig_oracle": v.oracle, "orig_detail": v.detail})
                );
                let _ = o.flush();
                found = true;
                break;
            } else {
                let key = format!("{}:{}", v.props.join("+"), v.oracle);
                *foreign.entry(key.clone()).or_insert(0) += 1;
                foreign_example.entry(key).or_insert_with(|| v.detail.clone());
            }
        }
    }
    let sets_json: BTreeMap<String, Vec<u64>> = sets
        .into_iter()
        .map(|(k, v)| (k, v.into_iter().collect()))
        .collect();
    let d = json!({
        "runs": runs,
        "evals": evals,
        "counters": counters,
        "sets": sets_json,
        "nontrivial": nontrivial.into_iter().collect::<Vec<u64>>(),
        "samples": samples,
        "foreign": foreign,
        "foreign_example": foreign_example,
        "trace": trace,
        "found": found,
    });
    let mut o = out.lock();
    let _ = writeln!(o, "D {}", d);
    let _ = o.flush();
    if found {
        3
    } else {
        0
    }
}

pub fn write_replay(
    prop: &str,
    engine: &str,
    profile: &str,
    seed: u64,
    v: &Viol,
    case: &Value,
) -> String {
    let dir = format!("{}/replays/{}", VERIF_DIR, prop);
    let _ = std::fs::create_dir_all(&dir);
    let path = format!("{}/{}-{}-{}.json", dir, engine, profile, seed);
    let doc = json!({
        "property": prop,
        "engine": engine,
        "profile": profile,
        "seed": seed,
        "expect": {"props": v.props, "oracle": v.oracle, "detail": v.detail},
        "case": case,
    });
    let _ = std::fs::write(&path, serde_json::to_string_pretty(&doc).unwrap());
    path
}

// ------------------------------------------------------------------------------------------------
// replay

/// exit code: 1 = a violation of the recorded class was reproduced, 0 = no violation,
/// 3 = a different violation, 2 = harness error
pub fn replay_main(path: &str, quiet: bool) -> i32 {
    let txt = match std::fs::read_to_string(path) {
        Ok(t) => t,
        Err(e) => {
            eprintln!("cannot read {}: {}", path, e);
            return 2;
        }
    };
    let doc: Value = match serde_json::from_str(&txt) {
        Ok(d) => d,
        Err(e) => {
            eprintln!("cannot parse {}: {}", path, e);
            return 2;
        }
    };
    let prop = doc["property"].as_str().unwrap_or("").to_string();
    let eng = engine(doc["engine"].as_str().unwrap_or(""));
    if let Some(m) = doc.get("miri") {
        let args: Vec<String> = m["args"].as_array().map(|a| a.iter().filter_map(|x| x.as_str().map(|s| s.to_string())).collect()).unwrap_or_default();
        let flags = m["flags"].as_str().unwrap_or("").to_string();
        let out = Command::new("cargo")
            .arg("+nightly").arg("miri").arg("run").arg("--offline")
            .arg("--manifest-path").arg(format!("{}/miri/Cargo.toml", VERIF_DIR))
            .arg("--").args(&args)
            .env("MIRIFLAGS", &flags).env("CARGO_NET_OFFLINE", "true")
            .current_dir(format!("{}/miri", VERIF_DIR))
            .output();
        return match out {
            Ok(o) if o.status.success() => {
                if !quiet { println!("NOT-REPRODUCED property={} (Miri scenario passes on this tree)", prop); }
                0
            }
            Ok(o) => {
                if !quiet {
                    let txt = String::from_utf8_lossy(&o.stderr).to_string();
                    let l: Vec<&str> = txt.lines().filter(|l| l.contains("error") || l.contains("panicked")).take(5).collect();
                    println!("REPRODUCED property={} oracle=miri detail={}", prop, l.join(" / "));
                    println!("VIOLATION property={} replay={}", prop, path);
                }
                1
            }
            Err(_) => 2,
        };
    }
    if let Some(sl) = doc.get("slice") {
        // the violation depends on what the same process executed before (process-global state):
        // re-execute the worker's whole slice up to the failing run
        let profile = doc["profile"].as_str().unwrap_or("").to_string();
        let base = sl["base"].as_u64().unwrap_or(0);
        let from = sl["from"].as_u64().unwrap_or(0);
        let upto = sl["upto"].as_u64().unwrap_or(0);
        let exp_oracle = doc["expect"]["oracle"].as_str().unwrap_or("").to_string();
        for i in from..=upto {
            let seed = run_seed_for(base, eng.name(), &profile, i);
            let rep = eng.run_seed(&profile, seed, &prop, false);
            if let Some(v) = rep.violation {
                if v.concerns(&prop) {
                    if i == upto && v.oracle == exp_oracle {
                        if !quiet {
                            println!("REPRODUCED property={} oracle={} (run {} of a process that executed runs {}..={}) detail={}", prop, v.oracle, i, from, upto, v.detail);
                            println!("VIOLATION property={} replay={}", prop, path);
                        }
                        return 1;
                    }
                    if !quiet {
                        println!("DIFFERENT run {} oracle={} detail={}", i, v.oracle, v.detail);
                    }
                    return 3;
                }
            }
        }
        if !quiet {
            println!("NOT-REPRODUCED property={} (no violation on this tree)", prop);
        }
        return 0;
    }
    let profile = doc["profile"].as_str().unwrap_or("").to_string();
    let seed = doc["seed"].as_u64().unwrap_or(0);
    let exp_oracle = doc["expect"]["oracle"].as_str().unwrap_or("").to_string();
    if eng.name() == "twin" {
        // Nondeterminism cannot be replayed exactly by its nature; the replay of a C20 finding is
        // the seed, re-executed several times in this process and in fresh child processes: any two
        // transcripts that differ reproduce it.
        let mut hashes: Vec<u64> = vec![];
        let mut in_process_violation = None;
        for attempt in 0..4 {
            let rep = eng.run_seed(&profile, seed, &prop, false);
            hashes.push(rep.trace_hash);
            if rep.violation.is_some() && in_process_violation.is_none() {
                in_process_violation = rep.violation.map(|v| v.detail);
            }
            let child = std::env::current_exe().ok().and_then(|exe| {
                Command::new(exe)
                    .arg("twinhash")
                    .arg(&profile)
                    .arg(seed.to_string())
                    .output()
                    .ok()
            });
            if let Some(h) = child
                .and_then(|o| String::from_utf8(o.stdout).ok())
                .and_then(|s| s.trim().parse::<u64>().ok())
            {
                hashes.push(h);
            }
            let differ = hashes.iter().any(|h| *h != hashes[0]);
            if differ || in_process_violation.is_some() {
                if !quiet {
                    println!(
                        "REPRODUCED property={} oracle={} detail=after {} attempt(s): transcripts {:x?}; in-process twin: {:?}",
                        prop, exp_oracle, attempt + 1, hashes, in_process_violation
                    );
                    println!("VIOLATION property={} replay={}", prop, path);
                }
                return 1;
            }
        }
        if !quiet {
            println!("NOT-REPRODUCED property={} (8 executions agree: {:#x})", prop, hashes[0]);
        }
        return 0;
    }
    let rep = if doc["case"].is_null() {
        eng.run_seed(&profile, seed, &prop, false)
    } else {
        eng.replay(&doc["case"], &prop)
    };
    match rep.violation {
        Some(v) if v.oracle == exp_oracle && v.concerns(&prop) => {
            if !quiet {
                println!(
                    "REPRODUCED property={} oracle={} detail={}",
                    prop, v.oracle, v.detail
                );
                println!("VIOLATION property={} replay={}", prop, path);
            }
            1
        }
        Some(v) => {
            if !quiet {
                println!(
                    "DIFFERENT property={:?} oracle={} (recorded {}) detail={}",
                    v.props, v.oracle, exp_oracle, v.detail
                );
            }
            3
        }
        None => {
            if !quiet {
                println!("NOT-REPRODUCED property={} (no violation on this tree)", prop);
            }
            0
        }
    }
}

// ------------------------------------------------------------------------------------------------
// known findings

pub struct Known {
    pub prop: String,
    pub oracle: String,
    pub needle: String,
    pub text: String,
}

pub fn load_known() -> Vec<Known> {
    let mut v = vec![];
    let Ok(txt) = std::fs::read_to_string(format!("{}/known_findings.txt", VERIF_DIR)) else {
        return v;
    };
    for line in txt.lines() {
        let line = line.trim();
        // finding: property=C17 oracle=index-bound match="..." -- description
        if let Some(rest) = line.strip_prefix("finding:") {
            let mut prop = String::new();
            let mut oracle = String::new();
            let mut needle = String::new();
            for tok in rest.split_whitespace() {
                if let Some(p) = tok.strip_prefix("property=") {
                    prop = p.to_string();
                }
                if let Some(p) = tok.strip_prefix("oracle=") {
                    oracle = p.to_string();
                }
            }
            if let Some(i) = rest.find("match=\"") {
                let r = &rest[i + 7..];
                if let Some(j) = r.find('"') {
                    needle = r[..j].to_string();
                }
            }
            v.push(Known {
                prop,
                oracle,
                needle,
                text: rest.trim().to_string(),
            });
        }
    }
    v
}

// ------------------------------------------------------------------------------------------------
// parent

enum Msg {
    Line(usize, String),
    Eof(usize, Option<i32>),
}

pub struct PartResult {
    pub runs: u64,
    pub evals: u64,
    pub counters: BTreeMap<String, u64>,
    pub sets: BTreeMap<String, BTreeSet<u64>>,
    pub nontrivial: BTreeSet<u64>,
    pub samples: Vec<Value>,
    pub foreign: BTreeMap<String, u64>,
    pub foreign_example: BTreeMap<String, String>,
    pub violations: Vec<Value>,
    pub crashes: Vec<(u64, String)>,
    pub trace: BTreeMap<u64, u64>,
    pub capped: bool,
}

pub fn run_part(
    prop: &str,
    part: &Part,
    runs: u64,
    base: u64,
    workers: usize,
    cap: Duration,
    trace: bool,
) -> PartResult {
    let exe = std::env::current_exe().expect("current_exe");
    let workers = workers.max(1).min(runs.max(1) as usize);
    let per = (runs + workers as u64 - 1) / workers as u64;
    let (tx, rx) = mpsc::channel::<Msg>();
    let mut children = vec![];
    for w in 0..workers {
        let from = w as u64 * per;
        let to = ((w as u64 + 1) * per).min(runs);
        if from >= to {
            continue;
        }
        let mut cmd = Command::new(&exe);
        cmd.arg("worker")
            .arg(prop)
            .arg(part.engine)
            .arg(part.profile)
            .arg(base.to_string())
            .arg(from.to_string())
            .arg(to.to_string());
        if trace {
            cmd.arg("trace");
        }
        let mut child = cmd
            .stdout(Stdio::piped())
            .stderr(Stdio::null())
            .spawn()
            .expect("spawn worker");
        let stdout = child.stdout.take().unwrap();
        let txc = tx.clone();
        let idx = children.len();
        std::thread::spawn(move || {
            let rd = BufReader::new(stdout);
            for line in rd.lines() {
                match line {
                    Ok(l) => {
                        if txc.send(Msg::Line(idx, l)).is_err() {
                            return;
                        }
                    }
                    Err(_) => break,
                }
            }
            let _ = txc.send(Msg::Eof(idx, None));
        });
        children.push((child, from, to));
    }
    drop(tx);
    let n = children.len();
    let mut last_announced: Vec<Option<u64>> = vec![None; n];
    let mut last_activity: Vec<Instant> = vec![Instant::now(); n];
    let mut done: Vec<bool> = vec![false; n];
    let mut got_summary: Vec<bool> = vec![false; n];
    let mut res = PartResult {
        runs: 0,
        evals: 0,
        counters: BTreeMap::new(),
        sets: BTreeMap::new(),
        nontrivial: BTreeSet::new(),
        samples: vec![],
        foreign: BTreeMap::new(),
        foreign_example: BTreeMap::new(),
        violations: vec![],
        crashes: vec![],
        trace: BTreeMap::new(),
        capped: false,
    };
    let start = Instant::now();
    let hang_limit = Duration::from_secs(180);
    loop {
        if done.iter().all(|d| *d) {
            break;
        }
        match rx.recv_timeout(Duration::from_millis(500)) {
            Ok(Msg::Line(w, l)) => {
                last_activity[w] = Instant::now();
                if let Some(r) = l.strip_prefix("S ") {
                    last_announced[w] = r.trim().parse().ok();
                } else if let Some(r) = l.strip_prefix("V ") {
                    if let Ok(v) = serde_json::from_str::<Value>(r) {
                        res.violations.push(v);
                    }
                } else if let Some(r) = l.strip_prefix("D ") {
                    if let Ok(d) = serde_json::from_str::<Value>(r) {
                        got_summary[w] = true;
                        res.runs += d["runs"].as_u64().unwrap_or(0);
                        res.evals += d["evals"].as_u64().unwrap_or(0);
                        if let Some(c) = d["counters"].as_object() {
                            for (k, v) in c {
                                *res.counters.entry(k.clone()).or_insert(0) += v.as_u64().unwrap_or(0);
                            }
                        }
                        if let Some(c) = d["sets"].as_object() {
                            for (k, v) in c {
                                let s = res.sets.entry(k.clone()).or_default();
                                for h in v.as_array().unwrap_or(&vec![]) {
                                    if let Some(h) = h.as_u64() {
                                        s.insert(h);
                                    }
                                }
                            }
                        }
                        for h in d["nontrivial"].as_array().unwrap_or(&vec![]) {
                            if let Some(h) = h.as_u64() {
                                res.nontrivial.insert(h);
                            }
                        }
                        for s in d["samples"].as_array().unwrap_or(&vec![]) {
                            res.samples.push(s.clone());
                        }
                        if let Some(c) = d["foreign"].as_object() {
                            for (k, v) in c {
                                *res.foreign.entry(k.clone()).or_insert(0) += v.as_u64().unwrap_or(0);
                            }
                        }
                        if let Some(c) = d["foreign_example"].as_object() {
                            for (k, v) in c {
                                res.foreign_example
                                    .entry(k.clone())
                                    .or_insert_with(|| v.as_str().unwrap_or("").to_string());
                            }
                        }
                        for t in d["trace"].as_array().unwrap_or(&vec![]) {
                            if let (Some(i), Some(h)) = (t[0].as_u64(), t[1].as_u64()) {
                                res.trace.insert(i, h);
                            }
                        }
                    }
                }
            }
            Ok(Msg::Eof(w, _)) => {
                let status = children[w].0.wait().ok();
                done[w] = true;
                let clean_exit = status
                    .map(|s| s.success() || s.code() == Some(3))
                    .unwrap_or(false);
                if !got_summary[w] || !clean_exit {
                    let code = status
                        .map(|s| format!("{:?}", s))
                        .unwrap_or_else(|| "unknown".into());
                    if let Some(i) = last_announced[w] {
                        res.crashes.push((i, format!("worker process died ({})", code)));
                    } else {
                        res.crashes.push((u64::MAX, format!("worker died before its first run ({})", code)));
                    }
                }
            }
            Err(mpsc::RecvTimeoutError::Timeout) => {}
            Err(mpsc::RecvTimeoutError::Disconnected) => {
                for w in 0..n {
                    if !done[w] {
                        let _ = children[w].0.wait();
                        done[w] = true;
                    }
                }
            }
        }
        // hang / cap handling
        for w in 0..n {
            if !done[w] && last_activity[w].elapsed() > hang_limit {
                let _ = children[w].0.kill();
                let _ = children[w].0.wait();
                done[w] = true;
                if let Some(i) = last_announced[w] {
                    res.crashes.push((i, "run made no progress for 180 s (hang)".into()));
                }
            }
        }
        if start.elapsed() > cap {
            res.capped = true;
            for w in 0..n {
                if !done[w] {
                    let _ = children[w].0.kill();
                    let _ = children[w].0.wait();
                    done[w] = true;
                }
            }
        }
    }
    res.samples.sort_by_key(|s| s["run"].as_u64().unwrap_or(0));
    res.samples.truncate(3);
    res
}

pub struct CheckOutcome {
    pub exit: i32,
}

pub fn check_main(prop: &str, tier: &str, plan: &Plan) -> i32 {
    let base: u64 = std::env::var("VERIF_SEED")
        .ok()
        .and_then(|s| s.trim().parse().ok())
        .unwrap_or(DEFAULT_SEED);
    let workers: usize = std::env::var("DST_WORKERS")
        .ok()
        .and_then(|s| s.parse().ok())
        .unwrap_or_else(|| {
            std::thread::available_parallelism()
                .map(|n| n.get())
                .unwrap_or(4)
                .min(16)
        });
    let thorough = tier == "thorough";
    let cap = Duration::from_secs(if thorough { 3000 } else { 420 });
    println!("VERIF_SEED={} property={} tier={} workers={}", base, prop, tier, workers);
    let t0 = Instant::now();
    let known = load_known();
    let mut total_runs = 0u64;
    let mut total_evals = 0u64;
    let mut counters: BTreeMap<String, u64> = BTreeMap::new();
    let mut sets: BTreeMap<String, BTreeSet<u64>> = BTreeMap::new();
    let mut nontrivial: BTreeSet<u64> = BTreeSet::new();
    let mut samples: Vec<Value> = vec![];
    let mut foreign: BTreeMap<String, u64> = BTreeMap::new();
    let mut violations: Vec<(String, Value)> = vec![];
    let mut known_hits: Vec<String> = vec![];
    let mut harness_errors: Vec<String> = vec![];
    let mut parts_json = vec![];
    let mut rules = vec![];
    let mut components = vec![];
    let mut capped = false;
    for part in &plan.parts {
        let runs = if thorough { part.thorough } else { part.quick };
        if runs == 0 {
            continue;
        }
        let tp = Instant::now();
        let r = run_part(prop, part, runs, base, workers, cap, plan.cross_process);
        if plan.cross_process {
            // the same seeds again, in fresh processes, at a different worker count
            let w2 = (workers / 3).max(1);
            let r2 = run_part(prop, part, runs, base, w2, cap, true);
            total_evals += r2.evals;
            let mut diverged: Vec<u64> = vec![];
            for (i, h) in &r.trace {
                if let Some(h2) = r2.trace.get(i) {
                    if h2 != h {
                        diverged.push(*i);
                    }
                }
            }
            *counters.entry("cross_process_transcripts_compared".into()).or_insert(0) +=
                r.trace.keys().filter(|i| r2.trace.contains_key(i)).count() as u64;
            if let Some(i) = diverged.first() {
                let seed = run_seed_for(base, part.engine, part.profile, *i);
                let viol = Viol {
                    props: vec![prop.to_string()],
                    oracle: "cross-process-transcript".into(),
                    detail: format!(
                        "run {} (seed {}) produced transcript {:#x} in one worker process and {:#x} in another ({} of {} seeds diverged)",
                        i, seed, r.trace[i], r2.trace[i], diverged.len(), r.trace.len()
                    ),
                };
                let path = write_replay(prop, part.engine, part.profile, seed, &viol, &Value::Null);
                violations.push((
                    part.engine.to_string(),
                    json!({"i": i, "seed": seed, "oracle": viol.oracle, "detail": viol.detail, "replay": path}),
                ));
            }
        }
        let eng = engine(part.engine);
        rules.push(format!("[{}:{}] {}", part.engine, part.profile, eng.rule(part.profile, prop)));
        components.push(json!({"engine": part.engine, "components": eng.components()}));
        total_runs += r.runs;
        total_evals += r.evals;
        capped |= r.capped;
        for (k, v) in r.counters {
            *counters.entry(k).or_insert(0) += v;
        }
        for (k, v) in r.sets {
            sets.entry(format!("{}:{}", part.engine, k)).or_default().extend(v);
        }
        // distinctness keys are per engine/profile: salt them so that parts never collide
        let salt = hash_str(part.engine) ^ hash_str(part.profile);
        nontrivial.extend(r.nontrivial.iter().map(|h| h ^ salt));
        samples.extend(r.samples.into_iter().take(2));
        for (k, v) in r.foreign {
            *foreign.entry(k).or_insert(0) += v;
        }
        let mut vs = r.violations;
        vs.sort_by_key(|v| v["i"].as_u64().unwrap_or(u64::MAX));
        // workers stop at their own first violation; the lowest run index is the one reported
        let violations_before = violations.len();
        if let Some(v) = vs.into_iter().next() {
            violations.push((part.engine.to_string(), v));
        }
        for (i, why) in r.crashes {
            if i == u64::MAX {
                harness_errors.push(why);
                continue;
            }
            let seed = run_seed_for(base, part.engine, part.profile, i);
            // Which operation was in progress? Re-execute the seed in a child that announces it.
            let exe0 = std::env::current_exe().expect("current_exe");
            let probe = Command::new(&exe0)
                .arg("crashprobe")
                .arg(part.engine)
                .arg(part.profile)
                .arg(seed.to_string())
                .stderr(Stdio::null())
                .output();
            let mut why = why;
            if let Ok(out) = probe {
                let txt = String::from_utf8_lossy(&out.stdout).to_string();
                let finished = txt.lines().any(|l| l.starts_with("E done"));
                if !finished {
                    if let Some(last) = txt.lines().rev().find(|l| l.starts_with("P ")) {
                        let ps: Vec<&str> = last[2..].split(',').map(|s| s.trim()).collect();
                        if !ps.contains(&prop) {
                            *foreign
                                .entry(format!("{}:process-crash", ps.join("+")))
                                .or_insert(0) += 1;
                            continue;
                        }
                        why = format!("{} while an operation concerning {} was in progress", why, ps.join(", "));
                    }
                }
            }
            let viol = Viol {
                props: vec![prop.to_string()],
                oracle: "process-crash".into(),
                detail: why.clone(),
            };
            let path = write_replay(prop, part.engine, part.profile, seed, &viol, &Value::Null);
            violations.push((
                part.engine.to_string(),
                json!({"i": i, "seed": seed, "oracle": "process-crash", "detail": why, "replay": path, "crash": true}),
            ));
        }
        parts_json.push(json!({
            "engine": part.engine, "profile": part.profile, "runs": r.runs,
            "wall_s": tp.elapsed().as_secs_f64(),
        }));
        if violations.len() > violations_before {
            break;
        }
    }
    // E5: Miri as a second, hook-free deterministic simulator (thorough tier only)
    let mut miri_json = vec![];
    if thorough && violations.is_empty() {
        for spec in &plan.miri {
            let tm = Instant::now();
            let flags = format!(
                "-Zmiri-disable-isolation -Zmiri-ignore-leaks -Zmiri-tree-borrows -Zmiri-preemption-rate=0.1 -Zmiri-many-seeds=0..{}",
                spec.seeds
            );
            let out = Command::new("cargo")
                .arg("+nightly")
                .arg("miri")
                .arg("run")
                .arg("--offline")
                .arg("--manifest-path")
                .arg(format!("{}/miri/Cargo.toml", VERIF_DIR))
                .arg("--")
                .args(&spec.args)
                .env("MIRIFLAGS", &flags)
                .env("CARGO_NET_OFFLINE", "true")
                .current_dir(format!("{}/miri", VERIF_DIR))
                .output();
            let (status, txt) = match out {
                Ok(o) => (
                    o.status.code(),
                    format!("{}{}", String::from_utf8_lossy(&o.stdout), String::from_utf8_lossy(&o.stderr)),
                ),
                Err(e) => (None, format!("cannot start cargo miri: {}", e)),
            };
            let oks = txt.lines().filter(|l| l.trim() == "ok").count();
            let bad = txt.contains("Undefined Behavior")
                || txt.contains("panicked at")
                || txt.contains("Data race detected")
                || txt.contains("error: the evaluated program");
            let result = if status == Some(0) && oks as u32 >= spec.seeds.min(1) {
                "passed"
            } else if bad {
                "failed"
            } else {
                "unavailable"
            };
            miri_json.push(json!({
                "scenario": spec.args, "seeds": spec.seeds, "completed": oks, "wall_s": tm.elapsed().as_secs_f64(), "result": result,
                "flags": flags,
            }));
            *counters.entry("miri_seeds_completed".into()).or_insert(0) += oks as u64;
            if result == "failed" {
                let lines: Vec<&str> = txt
                    .lines()
                    .filter(|l| l.contains("error") || l.contains("panicked") || l.contains("Undefined") || l.contains("seed") || l.contains("race"))
                    .take(12)
                    .collect();
                let detail = format!("Miri scenario {:?} failed: {}", spec.args, lines.join(" / "));
                let dir = format!("{}/replays/{}", VERIF_DIR, prop);
                let _ = std::fs::create_dir_all(&dir);
                let path = format!("{}/miri-{}.json", dir, spec.args.join("-"));
                let doc = json!({
                    "property": prop, "engine": "miri", "profile": spec.args.join(" "), "seed": 0,
                    "expect": {"props": [prop], "oracle": "miri", "detail": detail},
                    "miri": {"args": spec.args, "seeds": spec.seeds, "flags": flags},
                    "command": format!("cd /verif/miri && MIRIFLAGS=\"{}\" cargo +nightly miri run --offline -- {}", flags, spec.args.join(" ")),
                });
                let _ = std::fs::write(&path, serde_json::to_string_pretty(&doc).unwrap());
                violations.push((
                    "miri".to_string(),
                    json!({"i": 0, "seed": 0, "oracle": "miri", "detail": detail, "replay": path, "crash": true}),
                ));
            } else if result == "unavailable" {
                eprintln!("WARNING: Miri scenario {:?} could not be run (exit {:?}); recorded as unavailable", spec.args, status);
            }
        }
    }
    // verify replays in a fresh process, sort out known findings
    let exe = std::env::current_exe().expect("current_exe");
    let mut reported: Vec<(String, String)> = vec![];
    for (_eng, v) in &violations {
        let path = v["replay"].as_str().unwrap_or("").to_string();
        let oracle = v["oracle"].as_str().unwrap_or("").to_string();
        let detail = v["detail"].as_str().unwrap_or("").to_string();
        if let Some(k) = known
            .iter()
            .find(|k| k.prop == prop && k.oracle == oracle && (k.needle.is_empty() || detail.contains(&k.needle)))
        {
            known_hits.push(k.text.clone());
            continue;
        }
        if v["crash"].as_bool().unwrap_or(false) {
            reported.push((path, detail));
            continue;
        }
        let st = Command::new(&exe)
            .arg("replay")
            .arg(&path)
            .arg("--quiet")
            .stdout(Stdio::null())
            .stderr(Stdio::null())
            .status();
        match st.ok().and_then(|s| s.code()) {
            Some(1) => reported.push((path, detail)),
            other => {
                // Not reproducible from the case alone: the outcome depends on what the worker
                // process had executed before (process-global state in the code under test).
                // Replay the worker's slice of runs up to the failing one instead.
                let engine_name = v["engine"].as_str().unwrap_or("");
                let profile = v["profile"].as_str().unwrap_or("");
                let slice_path = format!(
                    "{}/replays/{}/{}-{}-slice-{}-{}.json",
                    VERIF_DIR,
                    prop,
                    engine_name,
                    profile,
                    v["from"].as_u64().unwrap_or(0),
                    v["i"].as_u64().unwrap_or(0)
                );
                let doc = json!({
                    "property": prop,
                    "engine": engine_name,
                    "profile": profile,
                    "seed": v["seed"],
                    "expect": {"props": [prop], "oracle": v["orig_oracle"], "detail": v["orig_detail"]},
                    "slice": {"base": v["base"], "from": v["from"], "upto": v["i"]},
                    "note": "the minimised case alone did not reproduce in a fresh process: the violation depends on what the same process executed earlier; this file re-executes that sequence of runs",
                });
                let _ = std::fs::write(&slice_path, serde_json::to_string_pretty(&doc).unwrap());
                let st2 = Command::new(&exe)
                    .arg("replay")
                    .arg(&slice_path)
                    .arg("--quiet")
                    .stdout(Stdio::null())
                    .stderr(Stdio::null())
                    .status();
                match st2.ok().and_then(|s| s.code()) {
                    Some(1) => reported.push((
                        slice_path,
                        format!("{} [depends on earlier runs in the same process]", v["orig_detail"].as_str().unwrap_or(&detail)),
                    )),
                    other2 => harness_errors.push(format!(
                        "replay of {} in a fresh process did not reproduce the violation (exit {:?}), nor did the slice replay (exit {:?})",
                        path, other, other2
                    )),
                }
            }
        }
    }
    known_hits.sort();
    known_hits.dedup();
    let wall = t0.elapsed().as_secs_f64();
    // evidence
    let mut distinct_sets = serde_json::Map::new();
    for (k, v) in &sets {
        distinct_sets.insert(
            format!("distinct_{}_estimated", k),
            json!(v.len() as u64 * 16),
        );
    }
    let faults: BTreeMap<&String, &u64> = counters.iter().filter(|(k, _)| k.starts_with("fault.")).collect();
    let probes: BTreeMap<&String, &u64> = counters.iter().filter(|(k, _)| k.starts_with("probe.")).collect();
    let evidence = json!({
        "property_id": prop,
        "tier": if thorough { "thorough" } else { "quick" },
        "seed": base,
        "level": plan.level,
        "coverage": {
            "evaluations": total_evals,
            "seeded_histories": total_runs,
            "distinct_nontrivial": nontrivial.len(),
            "rule": rules.join(" | "),
            "samples": samples,
            "exhaustive": false,
            "parts": parts_json,
            "runs_per_hour": if wall > 0.0 { (total_runs as f64 / wall * 3600.0) as u64 } else { 0 },
            "seeds_per_hour": if wall > 0.0 { (total_runs as f64 / wall * 3600.0) as u64 } else { 0 },
            "simulated_time": {
                "unit": "logical: frames (one maintain = one tick) and scheduler steps; specs has no clock",
                "frames": counters.get("maintains(logical_frames)").copied().unwrap_or(0),
                "scheduler_steps": counters.get("scheduler_steps").copied().unwrap_or(0),
                "operations": counters.get("ops").copied().unwrap_or(0),
            },
            "fault_kinds_fired": faults,
            "reach_probes": probes,
            "counters": counters,
            "distinct_reached": distinct_sets,
            "violations_of_other_properties_seen": foreign,
            "components": components,
            "stopped_by_wall_clock_cap": capped,
            "known_findings_hit": known_hits,
            "miri": miri_json,
        },
        "assumptions": plan.assumptions,
        "wall_s": wall,
        "violations": reported.len(),
    });
    let _ = std::fs::create_dir_all(format!("{}/evidence", VERIF_DIR));
    let _ = std::fs::write(
        format!("{}/evidence/{}.json", VERIF_DIR, prop),
        serde_json::to_string_pretty(&evidence).unwrap(),
    );
    println!(
        "runs={} distinct_nontrivial={} wall_s={:.1} foreign={:?}",
        total_runs,
        nontrivial.len(),
        wall,
        foreign
    );
    for k in &known_hits {
        println!("KNOWN-FINDING: {}", k);
    }
    for (path, detail) in &reported {
        println!("  {}", detail);
        println!("VIOLATION property={} replay={}", prop, path);
    }
    if !reported.is_empty() {
        return 1;
    }
    if !harness_errors.is_empty() {
        for e in &harness_errors {
            eprintln!("HARNESS-ERROR: {}", e);
        }
        return 2;
    }
    0
}
