//! E1 worldsim: one run = generate-and-execute (from a seed) or replay (from an explicit case).

use crate::rng::mix;
use crate::wcase::*;
use crate::wexec::{Exec, RunStats, Violation};
use crate::wgen::{profile, Gen};

pub struct Outcome {
    pub violation: Option<Violation>,
    pub stats: RunStats,
    pub trace_hash: u64,
    pub fault_sites: Vec<(u32, u32)>,
}

fn finish(mut ex: Exec, v: Option<Violation>) -> Outcome {
    let violation = match v {
        Some(mut v) => {
            // Still drop the world. The model may have diverged, so only ledger facts count
            // here: a value that is still alive after the world is gone (nothing is held by the
            // harness) was leaked, and a destructor that ran twice ran twice - both are C08's
            // subject whatever property the first discrepancy belonged to.
            let faults = ex.cfg.faults;
            // Model-independent purge invariant (C05): whatever went wrong first, a component whose
            // index belongs to no entity the world itself still reports (alive or awaiting maintain)
            // was not purged when its owner's deletion took effect.
            if !faults {
                let orphan = std::panic::catch_unwind(std::panic::AssertUnwindSafe(|| ex.orphan_component()));
                if let Ok(Some(d)) = orphan {
                    if !v.props.iter().any(|p| p == "C05") {
                        v.props.push("C05".to_string());
                    }
                    v.detail = format!("{} | {}", v.detail, d);
                }
            }
            let settled = std::panic::catch_unwind(std::panic::AssertUnwindSafe(|| {
                let _ = ex.finish();
                let _ = crate::ledger::take_anomalies();
            }));
            if settled.is_ok() && !faults {
                let live = crate::ledger::live_ids();
                let (c, d, r) = crate::ledger::zst_counts();
                if !live.is_empty() || c != d + r {
                    if !v.props.iter().any(|p| p == "C08") {
                        v.props.push("C08".to_string());
                    }
                    v.detail = format!(
                        "{} | after dropping the world {} value(s) were never destroyed nor returned (e.g. {:?}); zero-sized: {} created, {} destroyed, {} returned",
                        v.detail,
                        live.len(),
                        live.iter().take(4).collect::<Vec<_>>(),
                        c,
                        d,
                        r
                    );
                }
            }
            Some(v)
        }
        None => match std::panic::catch_unwind(std::panic::AssertUnwindSafe(|| ex.finish())) {
            Ok(r) => r.err(),
            Err(e) => Some(Violation {
                props: vec![if ex.cfg.faults { "C19".to_string() } else { "C08".to_string() }],
                oracle: "panic-escaped".into(),
                detail: format!(
                    "dropping the world / settling the ledger panicked: {} (at {})",
                    crate::util::panic_message(&e),
                    crate::util::last_panic_location()
                ),
                at_uid: u32::MAX,
            }),
        },
    };
    let mut t = ex.stats.trace;
    if let Some(v) = &violation {
        t.add_str(&v.oracle);
        t.add_str(&v.detail);
    }
    Outcome {
        violation,
        trace_hash: t.0,
        fault_sites: std::mem::take(&mut ex.fault_sites),
        stats: std::mem::take(&mut ex.stats),
    }
}

/// Generates a history from `seed` while executing it (the generator aims using the model state).
pub fn generate_and_run(prof_name: &str, seed: u64) -> (WCase, Outcome) {
    let prof = profile(prof_name);
    let mut g = Gen::new(mix(&[seed, crate::rng::hash_str(prof_name)]), prof.clone());
    let cfg = g.gen_cfg();
    let mut case = WCase {
        profile: prof_name.to_string(),
        seed,
        cfg: cfg.clone(),
        steps: vec![],
        final_fault: None,
    };
    let mut ex = match Exec::new(&cfg) {
        Ok(ex) => ex,
        Err(v) => {
            return (
                case,
                Outcome {
                    violation: Some(v),
                    stats: RunStats::default(),
                    trace_hash: 0,
                    fault_sites: vec![],
                },
            )
        }
    };
    let frames = g.rng.range(prof.frames.0, prof.frames.1);
    for _f in 0..frames {
        let nops = g.rng.range(prof.ops.0, prof.ops.1);
        for _ in 0..nops {
            let kind = g.next_kind(&ex);
            let fault = None;
            let op = Op {
                uid: g.uid(),
                kind,
                fault,
            };
            case.steps.push(Step::Op(op.clone()));
            if let Err(v) = ex.apply(&op) {
                return (case, finish(ex, Some(v)));
            }
            if ex.abort_after_fault {
                return (case, finish(ex, None));
            }
        }
        if g.rng.chance(prof.par_pct, 100) {
            let mut ph = g.par_phase(&ex);
            let r = crate::wpar::run_par_phase(&mut ex, &mut ph);
            case.steps.push(Step::Par(ph));
            if let Err(v) = r {
                return (case, finish(ex, Some(v)));
            }
        }
        if g.rng.chance(prof.maintain_pct, 100) {
            let op = Op {
                uid: g.uid(),
                kind: OpKind::Maintain,
                fault: None,
            };
            case.steps.push(Step::Op(op.clone()));
            if let Err(v) = ex.apply(&op) {
                return (case, finish(ex, Some(v)));
            }
            if ex.abort_after_fault {
                return (case, finish(ex, None));
            }
        }
    }
    (case, finish(ex, None))
}

/// Re-executes an explicit case (replay files, minimisation candidates).
pub fn replay(case: &WCase) -> Outcome {
    let mut ex = match Exec::new(&case.cfg) {
        Ok(mut ex) => {
            ex.final_fault = case.final_fault;
            ex
        }
        Err(v) => {
            return Outcome {
                violation: Some(v),
                stats: RunStats::default(),
                trace_hash: 0,
                fault_sites: vec![],
            }
        }
    };
    for step in &case.steps {
        let r = match step {
            Step::Op(op) => ex.apply(op),
            Step::Par(ph) => {
                let mut ph = ph.clone();
                crate::wpar::run_par_phase(&mut ex, &mut ph)
            }
        };
        if let Err(v) = r {
            return finish(ex, Some(v));
        }
        if ex.abort_after_fault {
            break;
        }
    }
    finish(ex, None)
}
