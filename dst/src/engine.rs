//! What every simulation engine offers to the runner.

use serde::{Deserialize, Serialize};
use std::collections::BTreeMap;

#[derive(Clone, Debug, Serialize, Deserialize, PartialEq, Eq)]
pub struct Viol {
    pub props: Vec<String>,
    pub oracle: String,
    pub detail: String,
}

impl Viol {
    pub fn concerns(&self, prop: &str) -> bool {
        self.props.iter().any(|p| p == prop)
    }
}

#[derive(Clone, Debug, Default)]
pub struct Report {
    pub violation: Option<Viol>,
    /// the explicit case (only materialised when there is a violation or a sample is wanted)
    pub case: Option<serde_json::Value>,
    pub trace_hash: u64,
    /// additive counters (fault kinds fired, probes, steps, ...)
    pub counters: BTreeMap<String, u64>,
    /// distinctness keys (hashes) of sets measured as "distinct X reached": name -> hashes
    pub sets: BTreeMap<String, Vec<u64>>,
    /// `Some(hash)` if this run is non-trivial for the property being checked
    pub nontrivial: Option<u64>,
    /// how many executions this report covers (0 is read as 1)
    pub executions: u64,
}

pub trait Engine: Sync + Send {
    fn name(&self) -> &'static str;
    /// Generates and executes run `seed` of `profile`; `prop` selects the non-triviality rule.
    fn run_seed(&self, profile: &str, seed: u64, prop: &str, want_case: bool) -> Report;
    fn replay(&self, case: &serde_json::Value, prop: &str) -> Report;
    /// Minimises a failing case; every candidate must keep a violation of `prop` with `oracle`.
    fn shrink(&self, case: serde_json::Value, prop: &str, oracle: &str) -> serde_json::Value;
    /// the non-triviality rule in words, for the evidence file
    fn rule(&self, profile: &str, prop: &str) -> String;
    /// which components run real code and which a stub
    fn components(&self) -> serde_json::Value;
}

/// Generic delta debugging over a list: returns a 1-minimal sublist for which `test` stays true.
pub fn ddmin<T: Clone>(items: Vec<T>, mut test: impl FnMut(&[T]) -> bool) -> Vec<T> {
    let mut cur = items;
    let mut n = 2usize;
    while cur.len() >= 2 {
        let chunk = (cur.len() + n - 1) / n;
        let mut reduced = false;
        let mut i = 0;
        while i < cur.len() {
            let end = (i + chunk).min(cur.len());
            let mut cand: Vec<T> = Vec::with_capacity(cur.len());
            cand.extend_from_slice(&cur[..i]);
            cand.extend_from_slice(&cur[end..]);
            if !cand.is_empty() && test(&cand) {
                cur = cand;
                n = (n - 1).max(2);
                reduced = true;
                break;
            }
            i = end;
        }
        if !reduced {
            if n >= cur.len() {
                break;
            }
            n = (n * 2).min(cur.len());
        }
    }
    if cur.len() == 1 {
        // try the empty list too? an empty history cannot violate anything: keep one element
    }
    cur
}
