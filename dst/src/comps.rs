//! Instrumented component types, one per storage configuration, and a type-erased `SlotOps`
//! interface so that the interpreters can address "storage slot k" at run time.

use crate::ledger::{self, Val};
use serde::{Deserialize, Serialize};
use specs::prelude::*;
use specs::storage::{
    AccessMut, BTreeStorage, ComponentEvent, DefaultVecStorage, DenseVecStorage,
    DerefFlaggedStorage, FlaggedStorage, GenericReadStorage, GenericWriteStorage, HashMapStorage,
    MaskedStorage, NullStorage, SharedGetMutStorage, StorageEntry, Tracked,
    VecStorage,
};
use specs::world::{EntitiesRes, EntityResBuilder, LazyBuilder};
use specs::{LendJoin, ReaderId};
use std::marker::PhantomData;
use std::sync::Mutex;

/// (ledger id, payload); `(0, 0)` for zero-sized components.
pub type V = (u64, i64);

#[derive(Clone, Copy, Debug, PartialEq, Eq, Serialize, Deserialize, PartialOrd, Ord, Hash)]
pub enum Inner {
    Vec,
    Dense,
    DefaultVec,
    Hash,
    BTree,
    Null,
}

#[derive(Clone, Copy, Debug, PartialEq, Eq, Serialize, Deserialize, PartialOrd, Ord, Hash)]
pub enum Wrap {
    Plain,
    Flagged,
    DerefFlagged,
}

#[derive(Clone, Copy, Debug, PartialEq, Eq, Serialize, Deserialize, PartialOrd, Ord, Hash)]
pub struct Kind {
    pub wrap: Wrap,
    pub inner: Inner,
}

impl Kind {
    pub fn tracked(self) -> bool {
        self.wrap != Wrap::Plain
    }
    pub fn zst(self) -> bool {
        self.inner == Inner::Null
    }
    pub fn has_slice(self) -> bool {
        self.wrap == Wrap::Plain
            && matches!(self.inner, Inner::Vec | Inner::Dense | Inner::DefaultVec)
    }
    /// `(&mut storage).join()` and `(&mut storage.restrict_mut()).join()` are available
    pub fn shared_mut(self) -> bool {
        self.wrap != Wrap::DerefFlagged
    }
    /// `(&mut storage).par_join()` is available
    pub fn distinct(self) -> bool {
        self.wrap == Wrap::Plain
    }
    pub fn name(self) -> String {
        let w = match self.wrap {
            Wrap::Plain => "",
            Wrap::Flagged => "Flagged<",
            Wrap::DerefFlagged => "DerefFlagged<",
        };
        let c = if self.wrap == Wrap::Plain { "" } else { ">" };
        format!("{}{:?}{}", w, self.inner, c)
    }
}

#[derive(Clone, Copy, Debug, PartialEq, Eq, Serialize, Deserialize)]
pub enum RegPath {
    Register,
    RegisterWithStorage,
    ReadSetup,
    WriteSetup,
    RegisterTwice,
    SetupThenRegister,
    /// the storage is put into the world as a plain resource, then made known by `setup`
    InsertThenSetup,
}

pub const ALL_REG_PATHS: [RegPath; 7] = [
    RegPath::InsertThenSetup,
    RegPath::Register,
    RegPath::RegisterWithStorage,
    RegPath::ReadSetup,
    RegPath::WriteSetup,
    RegPath::RegisterTwice,
    RegPath::SetupThenRegister,
];

/// What an instrumented component type must provide.
pub trait TComp: Component + Default + Send + Sync + 'static
where
    Self::Storage: Default,
{
    const KIND: Kind;
    type Slice: SliceCap<Self>;
    type Track: TrackCap<Self>;
    type Shared: SharedCap<Self>;
    /// Creates a fresh instrumented value; returns its ledger id (0 for ZST).
    fn make(payload: i64) -> (Self, u64);
    fn peek(&self) -> V;
    fn write(&mut self, payload: i64);
    /// The harness takes responsibility for a value specs handed back.
    fn consume(self) -> V;
}

// ------------------------------------------------------------------------------------------------
// Capability: slices

#[derive(Clone, Debug, PartialEq, Eq)]
pub struct SliceOut {
    pub len: usize,
    /// true: positions are entity indices; false: dense, positions mean nothing
    pub indexed: bool,
    /// (position, value) - for `VecStorage` only the positions named by the mask are readable
    pub items: Vec<(u32, V)>,
}

pub trait SliceCap<C: TComp>
where
    C::Storage: Default,
{
    fn view(_s: &ReadStorage<C>) -> Option<SliceOut> {
        None
    }
    /// writes `payload` through `as_mut_slice()` at `pos`; returns false if unsupported
    fn write(_s: &mut WriteStorage<C>, _pos: u32, _payload: i64) -> bool {
        false
    }
}

pub struct NoSlice;
impl<C: TComp> SliceCap<C> for NoSlice where C::Storage: Default {}

pub struct VecSlice;
impl<C: TComp<Storage = VecStorage<C>>> SliceCap<C> for VecSlice {
    fn view(s: &ReadStorage<C>) -> Option<SliceOut> {
        use hibitset::BitSetLike;
        let sl = s.as_slice();
        let mut items = vec![];
        for i in s.mask().iter() {
            if (i as usize) < sl.len() {
                // SAFETY: the mask says this slot is initialised (that is the storage's invariant;
                // a broken tree may violate it, which Miri runs would flag).
                let c = unsafe { sl[i as usize].assume_init_ref() };
                items.push((i, c.peek()));
            } else {
                items.push((i, (u64::MAX, 0)));
            }
        }
        Some(SliceOut {
            len: sl.len(),
            indexed: true,
            items,
        })
    }
    fn write(s: &mut WriteStorage<C>, pos: u32, payload: i64) -> bool {
        if !s.mask().contains(pos) {
            return false;
        }
        let sl = s.as_mut_slice();
        // SAFETY: as above.
        unsafe { sl[pos as usize].assume_init_mut() }.write(payload);
        true
    }
}

pub struct DefaultSlice;
impl<C: TComp<Storage = DefaultVecStorage<C>>> SliceCap<C> for DefaultSlice {
    fn view(s: &ReadStorage<C>) -> Option<SliceOut> {
        let sl = s.as_slice();
        Some(SliceOut {
            len: sl.len(),
            indexed: true,
            items: sl
                .iter()
                .enumerate()
                .map(|(i, c)| (i as u32, c.peek()))
                .collect(),
        })
    }
    fn write(s: &mut WriteStorage<C>, pos: u32, payload: i64) -> bool {
        if !s.mask().contains(pos) {
            return false;
        }
        s.as_mut_slice()[pos as usize].write(payload);
        true
    }
}

pub struct DenseSlice;
impl<C: TComp<Storage = DenseVecStorage<C>>> SliceCap<C> for DenseSlice {
    fn view(s: &ReadStorage<C>) -> Option<SliceOut> {
        let sl = s.as_slice();
        Some(SliceOut {
            len: sl.len(),
            indexed: false,
            items: sl
                .iter()
                .enumerate()
                .map(|(i, c)| (i as u32, c.peek()))
                .collect(),
        })
    }
    fn write(s: &mut WriteStorage<C>, pos: u32, payload: i64) -> bool {
        let sl = s.as_mut_slice();
        if (pos as usize) < sl.len() {
            sl[pos as usize].write(payload);
            true
        } else {
            false
        }
    }
}

// ------------------------------------------------------------------------------------------------
// Capability: change tracking

#[derive(Clone, Copy, Debug, PartialEq, Eq, Serialize, Deserialize, PartialOrd, Ord, Hash)]
pub enum Ev {
    Ins(u32),
    Mod(u32),
    Rem(u32),
}

impl From<&ComponentEvent> for Ev {
    fn from(e: &ComponentEvent) -> Ev {
        match *e {
            ComponentEvent::Inserted(i) => Ev::Ins(i),
            ComponentEvent::Modified(i) => Ev::Mod(i),
            ComponentEvent::Removed(i) => Ev::Rem(i),
        }
    }
}

pub trait TrackCap<C: TComp>
where
    C::Storage: Default,
{
    fn register(_s: &mut WriteStorage<C>) -> Option<ReaderId<ComponentEvent>> {
        None
    }
    fn read(_s: &ReadStorage<C>, _r: &mut ReaderId<ComponentEvent>) -> Vec<Ev> {
        vec![]
    }
    fn set_emission(_s: &mut WriteStorage<C>, _on: bool) {}
    fn emission(_s: &ReadStorage<C>) -> bool {
        true
    }
}

pub struct NoTrack;
impl<C: TComp> TrackCap<C> for NoTrack where C::Storage: Default {}

pub struct YesTrack;
impl<C: TComp> TrackCap<C> for YesTrack
where
    C::Storage: Tracked + Default,
{
    fn register(s: &mut WriteStorage<C>) -> Option<ReaderId<ComponentEvent>> {
        Some(s.register_reader())
    }
    fn read(s: &ReadStorage<C>, r: &mut ReaderId<ComponentEvent>) -> Vec<Ev> {
        s.channel().read(r).map(Ev::from).collect()
    }
    fn set_emission(s: &mut WriteStorage<C>, on: bool) {
        s.set_event_emission(on)
    }
    fn emission(s: &ReadStorage<C>) -> bool {
        s.event_emission()
    }
}

// ------------------------------------------------------------------------------------------------
// Capability: shared mutable access (non-lending mutable joins)

/// What a join visitor may do with one mutable item.
pub struct MutPlan<'p> {
    /// visit at most this many items
    pub take: usize,
    /// (index, fetch mutably?, write payload?) - indices not listed are only read
    pub acts: &'p [(u32, bool, Option<i64>)],
}

impl<'p> MutPlan<'p> {
    fn act(&self, idx: u32) -> (bool, Option<i64>) {
        self.acts
            .iter()
            .find(|a| a.0 == idx)
            .map(|a| (a.1, a.2))
            .unwrap_or((false, None))
    }
}

pub trait SharedCap<C: TComp>
where
    C::Storage: Default,
{
    /// `(&entities, &mut storage).join()`
    fn join_mut(_w: &World, _plan: &MutPlan) -> Option<Vec<(u32, V)>> {
        None
    }
    /// `(&entities, &mut storage.restrict_mut()).join()`
    fn restrict_shared(_w: &World, _plan: &MutPlan) -> Option<Vec<(u32, V)>> {
        None
    }
}

pub struct NoShared;
impl<C: TComp> SharedCap<C> for NoShared where C::Storage: Default {}

pub struct YesShared;
impl<C: TComp> SharedCap<C> for YesShared
where
    C::Storage: SharedGetMutStorage<C> + Default,
{
    fn join_mut(w: &World, plan: &MutPlan) -> Option<Vec<(u32, V)>> {
        let ents = w.entities();
        let mut s = w.write_storage::<C>();
        let mut out = vec![];
        for (e, mut acc) in (&ents, &mut s).join().take(plan.take) {
            // NOTE: the non-lending mutable join hands out `AccessMutReturn` directly: for the
            // eager wrapper the `Modified` event was emitted by the fetch itself.
            out.push((e.id(), (*acc).peek()));
            let (_m, wr) = plan.act(e.id());
            if let Some(p) = wr {
                acc.access_mut().write(p);
            }
        }
        Some(out)
    }
    fn restrict_shared(w: &World, plan: &MutPlan) -> Option<Vec<(u32, V)>> {
        let ents = w.entities();
        let mut s = w.write_storage::<C>();
        let mut out = vec![];
        let mut r = s.restrict_mut();
        for (e, mut item) in (&ents, &mut r).join().take(plan.take) {
            out.push((e.id(), item.get().peek()));
            let (m, wr) = plan.act(e.id());
            if m || wr.is_some() {
                let mut acc = item.get_mut();
                if let Some(p) = wr {
                    acc.access_mut().write(p);
                }
            }
        }
        Some(out)
    }
}

// ------------------------------------------------------------------------------------------------
// The component types

macro_rules! val_comp {
    ($name:ident, $wrap:ident, $inner:ident, $storage:ty, $slice:ty, $track:ty, $shared:ty) => {
        #[derive(Debug, Default)]
        pub struct $name(pub Val);
        impl Component for $name {
            type Storage = $storage;
        }
        impl TComp for $name {
            const KIND: Kind = Kind {
                wrap: Wrap::$wrap,
                inner: Inner::$inner,
            };
            type Slice = $slice;
            type Track = $track;
            type Shared = $shared;
            fn make(payload: i64) -> (Self, u64) {
                let v = ledger::new_val(payload);
                let id = v.id;
                ($name(v), id)
            }
            fn peek(&self) -> V {
                (self.0.id, self.0.payload)
            }
            fn write(&mut self, payload: i64) {
                self.0.payload = payload;
            }
            fn consume(self) -> V {
                let $name(v) = self;
                ledger::consume(v)
            }
        }
    };
}

macro_rules! zst_comp {
    ($name:ident, $wrap:ident, $storage:ty, $track:ty, $shared:ty) => {
        #[derive(Debug)]
        pub struct $name;
        impl Default for $name {
            fn default() -> Self {
                ledger::zst_created();
                $name
            }
        }
        impl Drop for $name {
            fn drop(&mut self) {
                ledger::zst_on_drop();
            }
        }
        impl Component for $name {
            type Storage = $storage;
        }
        impl TComp for $name {
            const KIND: Kind = Kind {
                wrap: Wrap::$wrap,
                inner: Inner::Null,
            };
            type Slice = NoSlice;
            type Track = $track;
            type Shared = $shared;
            fn make(_payload: i64) -> (Self, u64) {
                ledger::zst_created();
                ($name, 0)
            }
            fn peek(&self) -> V {
                (0, 0)
            }
            fn write(&mut self, _payload: i64) {}
            fn consume(self) -> V {
                ledger::zst_returned();
                std::mem::forget(self);
                (0, 0)
            }
        }
    };
}

val_comp!(CVec, Plain, Vec, VecStorage<Self>, VecSlice, NoTrack, YesShared);
val_comp!(CDense, Plain, Dense, DenseVecStorage<Self>, DenseSlice, NoTrack, YesShared);
val_comp!(CDefault, Plain, DefaultVec, DefaultVecStorage<Self>, DefaultSlice, NoTrack, YesShared);
val_comp!(CHash, Plain, Hash, HashMapStorage<Self>, NoSlice, NoTrack, YesShared);
val_comp!(CBTree, Plain, BTree, BTreeStorage<Self>, NoSlice, NoTrack, YesShared);
zst_comp!(CNull, Plain, NullStorage<Self>, NoTrack, YesShared);

val_comp!(FVec, Flagged, Vec, FlaggedStorage<Self, VecStorage<Self>>, NoSlice, YesTrack, YesShared);
val_comp!(FDense, Flagged, Dense, FlaggedStorage<Self, DenseVecStorage<Self>>, NoSlice, YesTrack, YesShared);
val_comp!(FDefault, Flagged, DefaultVec, FlaggedStorage<Self, DefaultVecStorage<Self>>, NoSlice, YesTrack, YesShared);
val_comp!(FHash, Flagged, Hash, FlaggedStorage<Self, HashMapStorage<Self>>, NoSlice, YesTrack, YesShared);
val_comp!(FBTree, Flagged, BTree, FlaggedStorage<Self, BTreeStorage<Self>>, NoSlice, YesTrack, YesShared);
zst_comp!(FNull, Flagged, FlaggedStorage<Self, NullStorage<Self>>, YesTrack, YesShared);

val_comp!(DVec, DerefFlagged, Vec, DerefFlaggedStorage<Self, VecStorage<Self>>, NoSlice, YesTrack, NoShared);
val_comp!(DDense, DerefFlagged, Dense, DerefFlaggedStorage<Self, DenseVecStorage<Self>>, NoSlice, YesTrack, NoShared);
val_comp!(DDefault, DerefFlagged, DefaultVec, DerefFlaggedStorage<Self, DefaultVecStorage<Self>>, NoSlice, YesTrack, NoShared);
val_comp!(DHash, DerefFlagged, Hash, DerefFlaggedStorage<Self, HashMapStorage<Self>>, NoSlice, YesTrack, NoShared);
val_comp!(DBTree, DerefFlagged, BTree, DerefFlaggedStorage<Self, BTreeStorage<Self>>, NoSlice, YesTrack, NoShared);
zst_comp!(DNull, DerefFlagged, DerefFlaggedStorage<Self, NullStorage<Self>>, YesTrack, NoShared);

// ------------------------------------------------------------------------------------------------
// Type-erased slot interface

#[derive(Clone, Copy, Debug, PartialEq, Eq, Serialize, Deserialize)]
pub enum EntryOp {
    /// occupied: `get`; vacant: nothing
    Get,
    /// occupied: `get_mut` (+ optional write); vacant: nothing
    GetMut,
    /// occupied: `insert` (returns old); vacant: `insert`
    Insert,
    /// occupied: `remove`; vacant: nothing
    Remove,
    Replace,
    OrInsert,
    OrInsertWith,
}

#[derive(Clone, Debug, PartialEq, Eq)]
pub enum EntryOut {
    /// `entry()` refused the handle
    Refused,
    Done {
        was_occupied: bool,
        /// value seen (get / get_mut / or_insert result before the write) if any
        seen: Option<V>,
        /// value handed back (insert-over / remove / replace) if any
        returned: Option<V>,
        /// ledger id of the value created for this call (0 if none); `used` says whether specs kept it
        new_id: u64,
        new_used: bool,
    },
}

#[derive(Clone, Debug, PartialEq, Eq)]
pub struct RestrictItem {
    pub idx: u32,
    pub own: V,
    /// results of `get_other` / `get_other_mut` for the requested other entities
    pub others: Vec<Option<V>>,
}

#[derive(Clone, Copy, Debug, PartialEq, Eq, Serialize, Deserialize)]
pub enum OtherMode {
    Read,
    Mut,
    MutWrite(i64),
}

pub trait SlotOps: Send + Sync {
    fn kind(&self) -> Kind;
    fn register(&self, w: &mut World, path: RegPath);

    fn with_now<'a>(&self, b: EntityBuilder<'a>, payload: i64) -> (EntityBuilder<'a>, u64);
    fn with_lazy<'a>(&self, b: LazyBuilder<'a>, payload: i64) -> (LazyBuilder<'a>, u64);
    fn with_res<'a>(
        &self,
        b: EntityResBuilder<'a>,
        w: &World,
        payload: i64,
    ) -> (EntityResBuilder<'a>, u64);

    /// returns (new value's id, Ok(replaced) | Err(message))
    fn insert(&self, w: &World, e: Entity, payload: i64) -> (u64, Result<Option<V>, String>);
    /// as `insert`, through `GenericWriteStorage`
    fn insert_generic(&self, w: &World, e: Entity, payload: i64)
        -> (u64, Result<Option<V>, String>);
    fn get(&self, w: &World, e: Entity) -> Option<V>;
    /// through a `ReadStorage` and `GenericReadStorage::get`
    fn get_read(&self, w: &World, e: Entity) -> Option<V>;
    /// value before the optional write; `touch`: take `access_mut()` even without writing
    fn get_mut(&self, w: &World, e: Entity, touch: bool, write: Option<i64>) -> Option<V>;
    fn remove(&self, w: &World, e: Entity) -> Option<V>;
    /// `storage.drain().lend_join().get(e, &entities)`
    fn lend_drain(&self, w: &World, e: Entity) -> Option<V>;
    fn contains(&self, w: &World, e: Entity) -> bool;
    fn entry(&self, w: &World, e: Entity, op: EntryOp, payload: i64, write: Option<i64>)
        -> EntryOut;
    /// (value seen, id of the default the harness-visible call may have created)
    fn get_mut_or_default(
        &self,
        w: &World,
        e: Entity,
        touch: bool,
        write: Option<i64>,
    ) -> Option<V>;
    /// `(&storage).lend_join().get(e, &entities)`
    fn lend_get(&self, w: &World, e: Entity) -> Option<V>;
    /// `(&mut storage).lend_join().get(e, &entities)`
    fn lend_get_mut(&self, w: &World, e: Entity, touch: bool, write: Option<i64>) -> Option<V>;

    fn count(&self, w: &World) -> usize;
    fn is_empty(&self, w: &World) -> bool;
    fn mask(&self, w: &World) -> Vec<u32>;
    /// `(&storage).join()` paired with the mask's indices
    fn dump(&self, w: &World) -> Vec<(u32, V)>;
    /// `(&entities, &storage).join()`
    fn join_read(&self, w: &World) -> Vec<(Entity, V)>;
    /// `(&entities, storage.drain()).join().take(n)`
    fn drain(&self, w: &World, take: usize) -> Vec<(u32, V)>;
    fn clear(&self, w: &World);
    fn slice(&self, w: &World) -> Option<SliceOut>;
    fn slice_write(&self, w: &World, pos: u32, payload: i64) -> bool;
    fn join_mut(&self, w: &World, plan: &MutPlan) -> Option<Vec<(u32, V)>>;
    /// `(&entities, &mut storage).lend_join()`
    fn lend_join_mut(&self, w: &World, plan: &MutPlan) -> Vec<(u32, V)>;
    /// `storage.entries()` lend-joined with entities: or_insert on every listed entity
    fn entries_or_insert(&self, w: &World, payload_base: i64) -> Vec<(u32, bool, V, u64)>;

    fn restrict_read(&self, w: &World, lend: bool, take: usize, others: &[Entity])
        -> Vec<RestrictItem>;
    fn restrict_shared(&self, w: &World, plan: &MutPlan) -> Option<Vec<(u32, V)>>;
    fn restrict_excl(
        &self,
        w: &World,
        plan: &MutPlan,
        others: &[(Entity, OtherMode)],
    ) -> Vec<RestrictItem>;

    fn register_reader(&self, w: &World) -> bool;
    fn has_reader(&self) -> bool;
    fn drop_reader(&self);
    fn read_events(&self, w: &World) -> Vec<Ev>;
    fn set_emission(&self, w: &World, on: bool);
    fn emission(&self, w: &World) -> bool;

    fn lazy_insert(&self, lazy: &LazyUpdate, e: Entity, payload: i64) -> u64;
    fn lazy_insert_all(&self, lazy: &LazyUpdate, items: Vec<(Entity, i64)>) -> Vec<u64>;
    fn lazy_remove(&self, lazy: &LazyUpdate, e: Entity);

    /// `entry_inner(2^24).or_insert(..)`: the raw-index entry API with an index the bit set cannot
    /// hold - the mask update unwinds after the value was written. Returns (value id, panicked).
    fn entry_huge(&self, w: &World, payload: i64) -> (u64, bool);
    /// DenseVecStorage structural self-check (cfg(specs_verif) hook); `None` if not applicable
    fn dense_check(&self, w: &World) -> Option<Result<(), String>>;
    /// whether the world knows a storage for this slot
    fn is_registered(&self, w: &World) -> bool;
}

/// When set, the generic-storage entry points of `SlotOps` go through the by-reference overloads
/// (`impl GenericWriteStorage for &mut WriteStorage`, `impl GenericReadStorage for &ReadStorage /
/// &WriteStorage`) instead of the by-value ones. Set and cleared by the interpreter around one op.
pub static BYREF: std::sync::atomic::AtomicBool = std::sync::atomic::AtomicBool::new(false);

fn byref() -> bool {
    BYREF.load(std::sync::atomic::Ordering::Relaxed)
}

fn g_insert<S: GenericWriteStorage>(mut s: S, e: Entity, c: S::Component) -> specs::storage::InsertResult<S::Component> {
    s.insert(e, c)
}

fn g_get<S: GenericReadStorage>(s: S, e: Entity, f: &mut dyn FnMut(Option<&S::Component>)) {
    f(s.get(e))
}

pub struct Slot<C: TComp>
where
    C::Storage: Default,
{
    reader: Mutex<Option<ReaderId<ComponentEvent>>>,
    _p: PhantomData<fn() -> C>,
}

impl<C: TComp> Default for Slot<C>
where
    C::Storage: Default,
{
    fn default() -> Self {
        Slot {
            reader: Mutex::new(None),
            _p: PhantomData,
        }
    }
}

fn acc_step<C: TComp, A: AccessMut<Target = C>>(acc: &mut A, touch: bool, write: Option<i64>) -> V
where
    C::Storage: Default,
{
    let seen = (**acc).peek();
    if let Some(p) = write {
        acc.access_mut().write(p);
    } else if touch {
        let _ = acc.access_mut();
    }
    seen
}

impl<C: TComp> SlotOps for Slot<C>
where
    C::Storage: Default,
{
    fn kind(&self) -> Kind {
        C::KIND
    }

    fn register(&self, w: &mut World, path: RegPath) {
        match path {
            RegPath::Register => w.register::<C>(),
            RegPath::RegisterWithStorage => w.register_with_storage::<_, C>(Default::default),
            RegPath::ReadSetup => <ReadStorage<C> as SystemData>::setup(w),
            RegPath::WriteSetup => <WriteStorage<C> as SystemData>::setup(w),
            RegPath::RegisterTwice => {
                w.register::<C>();
                w.register::<C>();
            }
            RegPath::SetupThenRegister => {
                <WriteStorage<C> as SystemData>::setup(w);
                w.register::<C>();
            }
            RegPath::InsertThenSetup => {
                w.insert(MaskedStorage::<C>::new(Default::default()));
                if C::KIND.inner == Inner::Hash {
                    <WriteStorage<C> as SystemData>::setup(w);
                } else {
                    <ReadStorage<C> as SystemData>::setup(w);
                }
            }
        }
    }

    fn with_now<'a>(&self, b: EntityBuilder<'a>, payload: i64) -> (EntityBuilder<'a>, u64) {
        let (c, id) = C::make(payload);
        (b.with(c), id)
    }

    fn with_lazy<'a>(&self, b: LazyBuilder<'a>, payload: i64) -> (LazyBuilder<'a>, u64) {
        let (c, id) = C::make(payload);
        (b.with(c), id)
    }

    fn with_res<'a>(
        &self,
        b: EntityResBuilder<'a>,
        w: &World,
        payload: i64,
    ) -> (EntityResBuilder<'a>, u64) {
        let (c, id) = C::make(payload);
        let mut s = w.write_storage::<C>();
        (b.with(c, &mut s), id)
    }

    fn insert(&self, w: &World, e: Entity, payload: i64) -> (u64, Result<Option<V>, String>) {
        let (c, id) = C::make(payload);
        let mut s = w.write_storage::<C>();
        let r = s.insert(e, c);
        (
            id,
            r.map(|o| o.map(|c| c.consume())).map_err(|e| e.to_string()),
        )
    }

    fn insert_generic(
        &self,
        w: &World,
        e: Entity,
        payload: i64,
    ) -> (u64, Result<Option<V>, String>) {
        let (c, id) = C::make(payload);
        let mut s = w.write_storage::<C>();
        let r = if byref() {
            g_insert(&mut s, e, c)
        } else {
            GenericWriteStorage::insert(&mut s, e, c)
        };
        (
            id,
            r.map(|o| o.map(|c| c.consume())).map_err(|e| e.to_string()),
        )
    }

    fn get(&self, w: &World, e: Entity) -> Option<V> {
        let s = w.write_storage::<C>();
        s.get(e).map(|c| c.peek())
    }

    fn get_read(&self, w: &World, e: Entity) -> Option<V> {
        if byref() {
            let mut out = None;
            if e.id() % 2 == 0 {
                let s = w.read_storage::<C>();
                g_get(&s, e, &mut |c| out = c.map(|c| c.peek()));
            } else {
                let s = w.write_storage::<C>();
                g_get(&s, e, &mut |c| out = c.map(|c| c.peek()));
            }
            return out;
        }
        let s = w.read_storage::<C>();
        GenericReadStorage::get(&s, e).map(|c| c.peek())
    }

    fn get_mut(&self, w: &World, e: Entity, touch: bool, write: Option<i64>) -> Option<V> {
        let mut s = w.write_storage::<C>();
        if byref() {
            let mut r = &mut s;
            let x = GenericWriteStorage::get_mut(&mut r, e);
            return x.map(|mut acc| acc_step::<C, _>(&mut acc, touch, write));
        }
        let r = s.get_mut(e);
        r.map(|mut acc| acc_step::<C, _>(&mut acc, touch, write))
    }

    fn remove(&self, w: &World, e: Entity) -> Option<V> {
        let mut s = w.write_storage::<C>();
        s.remove(e).map(|c| c.consume())
    }

    fn lend_drain(&self, w: &World, e: Entity) -> Option<V> {
        let ents = w.entities();
        let mut s = w.write_storage::<C>();
        let mut it = s.drain().lend_join();
        let r = it.get(e, &ents).map(|c| c.consume());
        r
    }

    fn contains(&self, w: &World, e: Entity) -> bool {
        let s = w.read_storage::<C>();
        s.contains(e)
    }

    fn entry(
        &self,
        w: &World,
        e: Entity,
        op: EntryOp,
        payload: i64,
        write: Option<i64>,
    ) -> EntryOut {
        let mut s = w.write_storage::<C>();
        let entry = match s.entry(e) {
            Ok(en) => en,
            Err(_) => return EntryOut::Refused,
        };
        let was_occupied = matches!(entry, StorageEntry::Occupied(_));
        let mut seen = None;
        let mut returned = None;
        let mut new_id = 0;
        let mut new_used = false;
        match op {
            EntryOp::Get => {
                if let StorageEntry::Occupied(o) = entry {
                    seen = Some(o.get().peek());
                }
            }
            EntryOp::GetMut => {
                if let StorageEntry::Occupied(mut o) = entry {
                    let mut acc = o.get_mut();
                    seen = Some(acc_step::<C, _>(&mut acc, true, write));
                }
            }
            EntryOp::Insert => {
                let (c, id) = C::make(payload);
                new_id = id;
                new_used = true;
                match entry {
                    StorageEntry::Occupied(mut o) => returned = Some(o.insert(c).consume()),
                    StorageEntry::Vacant(v) => {
                        let mut acc = v.insert(c);
                        seen = Some(acc_step::<C, _>(&mut acc, false, write));
                    }
                }
            }
            EntryOp::Remove => {
                if let StorageEntry::Occupied(o) = entry {
                    returned = Some(o.remove().consume());
                }
            }
            EntryOp::Replace => {
                let (c, id) = C::make(payload);
                new_id = id;
                new_used = true;
                returned = entry.replace(c).map(|c| c.consume());
            }
            EntryOp::OrInsert => {
                // NOTE: `or_insert(component)` takes the value eagerly; when the entry is occupied
                // specs drops it (destroyed exactly once, by specs).
                let (c, id) = C::make(payload);
                new_id = id;
                new_used = !was_occupied;
                let mut acc = entry.or_insert(c);
                seen = Some(acc_step::<C, _>(&mut acc, false, write));
            }
            EntryOp::OrInsertWith => {
                let mut made = 0;
                let mut acc = entry.or_insert_with(|| {
                    let (c, id) = C::make(payload);
                    made = id;
                    c
                });
                seen = Some(acc_step::<C, _>(&mut acc, false, write));
                drop(acc);
                new_id = made;
                new_used = !was_occupied;
            }
        }
        EntryOut::Done {
            was_occupied,
            seen,
            returned,
            new_id,
            new_used,
        }
    }

    fn get_mut_or_default(
        &self,
        w: &World,
        e: Entity,
        touch: bool,
        write: Option<i64>,
    ) -> Option<V> {
        let mut s = w.write_storage::<C>();
        if byref() {
            let mut r = &mut s;
            let x = GenericWriteStorage::get_mut_or_default(&mut r, e);
            return x.map(|mut acc| acc_step::<C, _>(&mut acc, touch, write));
        }
        let r = GenericWriteStorage::get_mut_or_default(&mut s, e);
        r.map(|mut acc| acc_step::<C, _>(&mut acc, touch, write))
    }

    fn lend_get(&self, w: &World, e: Entity) -> Option<V> {
        let ents = w.entities();
        let s = w.read_storage::<C>();
        let mut it = (&s).lend_join();
        let r = it.get(e, &ents).map(|c| c.peek());
        r
    }

    fn lend_get_mut(&self, w: &World, e: Entity, touch: bool, write: Option<i64>) -> Option<V> {
        let ents = w.entities();
        let mut s = w.write_storage::<C>();
        let mut it = (&mut s).lend_join();
        let r = it
            .get(e, &ents)
            .map(|mut acc| acc_step::<C, _>(&mut acc, touch, write));
        r
    }

    fn count(&self, w: &World) -> usize {
        w.read_storage::<C>().count()
    }

    fn is_empty(&self, w: &World) -> bool {
        w.read_storage::<C>().is_empty()
    }

    fn mask(&self, w: &World) -> Vec<u32> {
        use hibitset::BitSetLike;
        let s = w.read_storage::<C>();
        let v: Vec<u32> = s.mask().iter().collect();
        v
    }

    fn dump(&self, w: &World) -> Vec<(u32, V)> {
        let s = w.read_storage::<C>();
        let v: Vec<(u32, V)> = (s.mask(), &s).join().map(|(i, c)| (i, c.peek())).collect();
        v
    }

    fn join_read(&self, w: &World) -> Vec<(Entity, V)> {
        let ents = w.entities();
        let s = w.read_storage::<C>();
        let v: Vec<(Entity, V)> = (&ents, &s).join().map(|(e, c)| (e, c.peek())).collect();
        v
    }

    fn drain(&self, w: &World, take: usize) -> Vec<(u32, V)> {
        let mut s = w.write_storage::<C>();
        let mask = s.mask().clone();
        let v: Vec<(u32, V)> = (&mask, s.drain())
            .join()
            .take(take)
            .map(|(i, c)| (i, c.consume()))
            .collect();
        v
    }

    fn clear(&self, w: &World) {
        w.write_storage::<C>().clear();
    }

    fn slice(&self, w: &World) -> Option<SliceOut> {
        let s = w.read_storage::<C>();
        C::Slice::view(&s)
    }

    fn slice_write(&self, w: &World, pos: u32, payload: i64) -> bool {
        let mut s = w.write_storage::<C>();
        C::Slice::write(&mut s, pos, payload)
    }

    fn join_mut(&self, w: &World, plan: &MutPlan) -> Option<Vec<(u32, V)>> {
        C::Shared::join_mut(w, plan)
    }

    fn lend_join_mut(&self, w: &World, plan: &MutPlan) -> Vec<(u32, V)> {
        let ents = w.entities();
        let mut s = w.write_storage::<C>();
        let mut out = vec![];
        let mut it = (&ents, &mut s).lend_join();
        let mut n = 0;
        while n < plan.take {
            let Some((e, mut acc)) = it.next() else { break };
            n += 1;
            out.push((e.id(), (*acc).peek()));
            let (m, wr) = plan.act(e.id());
            if let Some(p) = wr {
                acc.access_mut().write(p);
            } else if m {
                let _ = acc.access_mut();
            }
        }
        out
    }

    fn entries_or_insert(&self, w: &World, payload_base: i64) -> Vec<(u32, bool, V, u64)> {
        let ents = w.entities();
        let mut s = w.write_storage::<C>();
        let mut out = vec![];
        let mut it = (&ents, s.entries()).lend_join();
        while let Some((e, entry)) = it.next() {
            let occ = matches!(entry, StorageEntry::Occupied(_));
            let mut made = 0;
            let acc = entry.or_insert_with(|| {
                let (c, id) = C::make(payload_base + e.id() as i64);
                made = id;
                c
            });
            out.push((e.id(), occ, (*acc).peek(), made));
        }
        out
    }

    fn restrict_read(
        &self,
        w: &World,
        lend: bool,
        take: usize,
        others: &[Entity],
    ) -> Vec<RestrictItem> {
        let ents = w.entities();
        let s = w.read_storage::<C>();
        let r = s.restrict();
        let mut out = vec![];
        if lend {
            let mut it = (&ents, &r).lend_join();
            let mut n = 0;
            while n < take {
                let Some((e, item)) = it.next() else { break };
                n += 1;
                out.push(RestrictItem {
                    idx: e.id(),
                    own: item.get().peek(),
                    others: others
                        .iter()
                        .map(|&o| item.get_other(o).map(|c| c.peek()))
                        .collect(),
                });
            }
        } else {
            for (e, item) in (&ents, &r).join().take(take) {
                out.push(RestrictItem {
                    idx: e.id(),
                    own: item.get().peek(),
                    others: others
                        .iter()
                        .map(|&o| item.get_other(o).map(|c| c.peek()))
                        .collect(),
                });
            }
        }
        out
    }

    fn restrict_shared(&self, w: &World, plan: &MutPlan) -> Option<Vec<(u32, V)>> {
        C::Shared::restrict_shared(w, plan)
    }

    fn restrict_excl(
        &self,
        w: &World,
        plan: &MutPlan,
        others: &[(Entity, OtherMode)],
    ) -> Vec<RestrictItem> {
        let ents = w.entities();
        let mut s = w.write_storage::<C>();
        let mut r = s.restrict_mut();
        let mut out = vec![];
        let mut it = (&ents, &mut r).lend_join();
        let mut n = 0;
        while n < plan.take {
            let Some((e, mut item)) = it.next() else { break };
            n += 1;
            let own = item.get().peek();
            let (m, wr) = plan.act(e.id());
            if m || wr.is_some() {
                let mut acc = item.get_mut();
                acc_step::<C, _>(&mut acc, m, wr);
            }
            let mut os = vec![];
            for &(o, mode) in others {
                os.push(match mode {
                    OtherMode::Read => item.get_other(o).map(|c| c.peek()),
                    OtherMode::Mut => item
                        .get_other_mut(o)
                        .map(|mut a| acc_step::<C, _>(&mut a, true, None)),
                    OtherMode::MutWrite(p) => item
                        .get_other_mut(o)
                        .map(|mut a| acc_step::<C, _>(&mut a, true, Some(p))),
                });
            }
            out.push(RestrictItem {
                idx: e.id(),
                own,
                others: os,
            });
        }
        out
    }

    fn register_reader(&self, w: &World) -> bool {
        let mut s = w.write_storage::<C>();
        let r = C::Track::register(&mut s);
        let ok = r.is_some();
        *self.reader.lock().unwrap() = r;
        ok
    }

    fn has_reader(&self) -> bool {
        self.reader.lock().unwrap().is_some()
    }

    fn drop_reader(&self) {
        *self.reader.lock().unwrap() = None;
    }

    fn read_events(&self, w: &World) -> Vec<Ev> {
        let s = w.read_storage::<C>();
        let mut g = self.reader.lock().unwrap();
        match g.as_mut() {
            Some(r) => C::Track::read(&s, r),
            None => vec![],
        }
    }

    fn set_emission(&self, w: &World, on: bool) {
        let mut s = w.write_storage::<C>();
        C::Track::set_emission(&mut s, on);
    }

    fn emission(&self, w: &World) -> bool {
        let s = w.read_storage::<C>();
        C::Track::emission(&s)
    }

    fn lazy_insert(&self, lazy: &LazyUpdate, e: Entity, payload: i64) -> u64 {
        let (c, id) = C::make(payload);
        lazy.insert(e, c);
        id
    }

    fn lazy_insert_all(&self, lazy: &LazyUpdate, items: Vec<(Entity, i64)>) -> Vec<u64> {
        let mut ids = vec![];
        let mut comps = vec![];
        for (e, p) in items {
            let (c, id) = C::make(p);
            ids.push(id);
            comps.push((e, c));
        }
        lazy.insert_all(comps);
        ids
    }

    fn lazy_remove(&self, lazy: &LazyUpdate, e: Entity) {
        lazy.remove::<C>(e);
    }

    fn entry_huge(&self, w: &World, payload: i64) -> (u64, bool) {
        let (c, id) = C::make(payload);
        let r = std::panic::catch_unwind(std::panic::AssertUnwindSafe(|| {
            let mut s = w.write_storage::<C>();
            let _ = s.entry_inner(HUGE_INDEX).or_insert(c);
        }));
        (id, r.is_err())
    }

    fn dense_check(&self, w: &World) -> Option<Result<(), String>> {
        dense_check_impl::<C>(w)
    }

    fn is_registered(&self, w: &World) -> bool {
        w.has_value::<MaskedStorage<C>>()
    }
}

fn dense_check_impl<C: TComp>(w: &World) -> Option<Result<(), String>>
where
    C::Storage: Default,
{
    use std::any::Any;
    let s = w.read_storage::<C>();
    let present: Vec<u32> = {
        use hibitset::BitSetLike;
        s.mask().iter().collect()
    };
    let st: &dyn Any = s.unprotected_storage();
    st.downcast_ref::<DenseVecStorage<C>>()
        .map(|d| d.verif_check(&present))
}

/// an index a hierarchical bit set cannot hold (its capacity is 2^24 indices; 2^24 itself is
/// still accepted by hibitset's range check)
pub const HUGE_INDEX: u32 = (1 << 24) + 64;

pub fn all_kinds() -> Vec<Kind> {
    let mut v = vec![];
    for wrap in [Wrap::Plain, Wrap::Flagged, Wrap::DerefFlagged] {
        for inner in [
            Inner::Vec,
            Inner::Dense,
            Inner::DefaultVec,
            Inner::Hash,
            Inner::BTree,
            Inner::Null,
        ] {
            v.push(Kind { wrap, inner });
        }
    }
    v
}

pub fn slot_for(kind: Kind) -> Box<dyn SlotOps> {
    use Inner::*;
    use Wrap::*;
    match (kind.wrap, kind.inner) {
        (Plain, Vec) => Box::new(Slot::<CVec>::default()),
        (Plain, Dense) => Box::new(Slot::<CDense>::default()),
        (Plain, DefaultVec) => Box::new(Slot::<CDefault>::default()),
        (Plain, Hash) => Box::new(Slot::<CHash>::default()),
        (Plain, BTree) => Box::new(Slot::<CBTree>::default()),
        (Plain, Null) => Box::new(Slot::<CNull>::default()),
        (Flagged, Vec) => Box::new(Slot::<FVec>::default()),
        (Flagged, Dense) => Box::new(Slot::<FDense>::default()),
        (Flagged, DefaultVec) => Box::new(Slot::<FDefault>::default()),
        (Flagged, Hash) => Box::new(Slot::<FHash>::default()),
        (Flagged, BTree) => Box::new(Slot::<FBTree>::default()),
        (Flagged, Null) => Box::new(Slot::<FNull>::default()),
        (DerefFlagged, Vec) => Box::new(Slot::<DVec>::default()),
        (DerefFlagged, Dense) => Box::new(Slot::<DDense>::default()),
        (DerefFlagged, DefaultVec) => Box::new(Slot::<DDefault>::default()),
        (DerefFlagged, Hash) => Box::new(Slot::<DHash>::default()),
        (DerefFlagged, BTree) => Box::new(Slot::<DBTree>::default()),
        (DerefFlagged, Null) => Box::new(Slot::<DNull>::default()),
    }
}

/// Touches `EntitiesRes` so that the import is used even when only some ops are compiled.
#[allow(dead_code)]
fn _uses(_: &EntitiesRes) {}

// auxiliary member types for joinsim (never used as worldsim slots)
val_comp!(XDense, Plain, Dense, DenseVecStorage<Self>, DenseSlice, NoTrack, YesShared);
val_comp!(XFHash, Flagged, Hash, FlaggedStorage<Self, HashMapStorage<Self>>, NoSlice, YesTrack, YesShared);
val_comp!(XBTree, Plain, BTree, BTreeStorage<Self>, NoSlice, NoTrack, YesShared);
