//! E2 joinsim: parallel joins under a simulated work-stealing scheduler (C07, parallel part of C13).
//!
//! Mode A - simulated bridge: the `cfg(specs_verif)` hook lends the real, private `JoinProducer`;
//! a seeded recursion decides where to `split()` (any node may or may not split, to any depth - a
//! superset of the trees rayon can produce) and every leaf runs the real `fold_with` inside a
//! baton-scheduled task, so item processing of different leaves interleaves under the seed.
//! Mode B - the real `rayon::bridge_unindexed` on a pool that believes it has N workers while only
//! the calling thread ever runs (deterministic splitting for an N-thread pool, real consumers).

use crate::baton::{run_tasks, BatonCfg, Policy, Recorded, TaskBody, TaskCtx, STAY};
use crate::comps::*;
use crate::engine::{Engine, Report, Viol};
use crate::ledger;
use crate::rng::{mix, Rng, TraceHash};
use rayon::iter::ParallelIterator;
use serde::{Deserialize, Serialize};
use specs::join::{verif_with_producer, JoinParIter, VerifProducer};
use specs::prelude::*;
use specs::storage::AccessMut;
use std::cell::RefCell;
use std::collections::{BTreeMap, BTreeSet, HashSet};
use std::sync::Mutex;

#[derive(Clone, Copy, Debug, PartialEq, Eq, Serialize, Deserialize)]
pub enum Pattern {
    All,
    Every(u32),
    /// each index with probability 1/n
    Random(u32),
    /// only indices within +-2 of a bit-set layer boundary (multiples of 64 / 4096 / 262144)
    Boundaries,
    /// alternating blocks of the given length
    Blocks(u32),
    None,
}

impl Pattern {
    fn has(&self, idx: u32, rng_seed: u64) -> bool {
        match *self {
            Pattern::All => true,
            Pattern::None => false,
            Pattern::Every(k) => idx % k.max(1) == 0,
            Pattern::Random(n) => {
                let mut x = mix(&[rng_seed, idx as u64]);
                crate::rng::splitmix(&mut x) % n.max(1) as u64 == 0
            }
            Pattern::Boundaries => {
                for b in [64u32, 4096, 262144] {
                    let r = idx % b;
                    if r <= 2 || r >= b - 2 {
                        return true;
                    }
                }
                false
            }
            Pattern::Blocks(n) => (idx / n.max(1)) % 2 == 0,
        }
    }
}

#[derive(Clone, Copy, Debug, PartialEq, Eq, Serialize, Deserialize)]
pub enum Shape {
    /// (&entities, &mut A)
    MutOnly,
    /// (&entities, &mut A, &XDense)
    MutAndRead,
    /// (&entities, &mut A, !&XDense)
    MutAndNot,
    /// (&entities, &mut A, (&XFHash).maybe())
    MutAndMaybe,
    /// (&entities, &bitset, &mut A)
    BitsetAndMut,
    /// (&entities, &mut A.restrict_mut())
    RestrictMut,
    /// (&entities, &A.restrict())
    RestrictRead,
    /// (&entities, &mut A, &mut XBTree, &XDense, (&XFHash).maybe())
    Five,
    /// (&entities, &A)
    ReadOnly,
    /// &mut A alone
    BareMut,
    /// (&entities, BitSetXor(&bits, &bits2), &mut A)
    BitXor,
    /// (&entities, BitSetOr(&bits, BitSetNot(&bits2)), &mut A)
    BitOrNot,
    /// (&entities, &mut A, (&bits).maybe())
    MaybeBits,
    /// ((&entities, &mut A), (&XDense, (&XFHash).maybe()))
    Nested,
}

pub const MUT_SHAPES: [Shape; 12] = [
    Shape::BitXor,
    Shape::BitOrNot,
    Shape::MaybeBits,
    Shape::Nested,
    Shape::MutOnly,
    Shape::MutAndRead,
    Shape::MutAndNot,
    Shape::MutAndMaybe,
    Shape::BitsetAndMut,
    Shape::RestrictMut,
    Shape::Five,
    Shape::BareMut,
];

#[derive(Clone, Copy, Debug, PartialEq, Eq, Serialize, Deserialize)]
pub enum Consumer {
    ForEach,
    MapCollect,
    FilterCount,
}

#[derive(Clone, Debug, Serialize, Deserialize)]
pub enum Mode {
    /// simulated bridge
    A {
        split_seed: u64,
        /// percent probability of splitting a node
        split_pct: u8,
        depth_cap: u8,
        /// leaves are distributed round-robin over this many baton tasks
        tasks: u8,
        baton: BatonCfg,
        #[serde(default, skip_serializing_if = "Option::is_none")]
        recorded: Option<Recorded>,
    },
    /// real rayon bridge, virtual pool size
    B { threads: u32, consumer: Consumer },
}

#[derive(Clone, Debug, Serialize, Deserialize)]
pub struct JCase {
    pub seed: u64,
    pub width: u32,
    pub alive: Pattern,
    pub unmerged: u8,
    pub a_kind: Kind,
    pub a_pat: Pattern,
    pub xd_pat: Pattern,
    pub xf_pat: Pattern,
    pub xb_pat: Pattern,
    pub bits_pat: Pattern,
    pub shape: Shape,
    pub mode: Mode,
    /// the per-item closure itself runs a (read-only) parallel join now and then: re-entrancy of
    /// the join machinery on the same worker
    #[serde(default)]
    pub nest: bool,
}

pub struct Contents {
    pub world: World,
    pub alive: BTreeMap<u32, Entity>,
    pub a: BTreeMap<u32, V>,
    pub xd: BTreeMap<u32, V>,
    pub xf: BTreeMap<u32, V>,
    pub xb: BTreeMap<u32, V>,
    pub bits: BTreeSet<u32>,
    pub bitset: BitSet,
    pub bits2: BTreeSet<u32>,
    pub bitset2: BitSet,
}

fn build<A: TComp>(c: &JCase) -> Contents
where
    A::Storage: Default,
{
    ledger::reset();
    let mut world = World::new();
    world.register::<A>();
    world.register::<XDense>();
    world.register::<XFHash>();
    world.register::<XBTree>();
    let ents: Vec<Entity> = world.create_iter().take(c.width as usize).collect();
    let mut dead = vec![];
    let mut alive = BTreeMap::new();
    for e in &ents {
        if c.alive.has(e.id(), c.seed ^ 0xA11E) {
            alive.insert(e.id(), *e);
        } else {
            dead.push(*e);
        }
    }
    // components are inserted while everything is alive, so that deletion must purge them
    let mut a = BTreeMap::new();
    let mut xd = BTreeMap::new();
    let mut xf = BTreeMap::new();
    let mut xb = BTreeMap::new();
    {
        let mut sa = world.write_storage::<A>();
        let mut sd = world.write_storage::<XDense>();
        let mut sf = world.write_storage::<XFHash>();
        let mut sb = world.write_storage::<XBTree>();
        for e in &ents {
            let i = e.id();
            if c.a_pat.has(i, c.seed ^ 1) {
                let (v, id) = A::make(1000 + i as i64);
                sa.insert(*e, v).unwrap();
                if alive.contains_key(&i) {
                    a.insert(i, (id, if A::KIND.zst() { 0 } else { 1000 + i as i64 }));
                }
            }
            if c.xd_pat.has(i, c.seed ^ 2) {
                let (v, id) = XDense::make(2000 + i as i64);
                sd.insert(*e, v).unwrap();
                if alive.contains_key(&i) {
                    xd.insert(i, (id, 2000 + i as i64));
                }
            }
            if c.xf_pat.has(i, c.seed ^ 3) {
                let (v, id) = XFHash::make(3000 + i as i64);
                sf.insert(*e, v).unwrap();
                if alive.contains_key(&i) {
                    xf.insert(i, (id, 3000 + i as i64));
                }
            }
            if c.xb_pat.has(i, c.seed ^ 4) {
                let (v, id) = XBTree::make(4000 + i as i64);
                sb.insert(*e, v).unwrap();
                if alive.contains_key(&i) {
                    xb.insert(i, (id, 4000 + i as i64));
                }
            }
        }
    }
    world.delete_entities(&dead).unwrap();
    // a few deferred creations (the entities mask is alive | raised), with components per the
    // same patterns, and a few deferred deletions (still alive until the next maintain)
    for _ in 0..c.unmerged {
        let e = world.entities().create();
        alive.insert(e.id(), e);
        let i = e.id();
        if c.a_pat.has(i, c.seed ^ 1) {
            let (v, id) = A::make(1000 + i as i64);
            world.write_storage::<A>().insert(e, v).unwrap();
            a.insert(i, (id, if A::KIND.zst() { 0 } else { 1000 + i as i64 }));
        }
        if c.xd_pat.has(i, c.seed ^ 2) {
            let (v, id) = XDense::make(2000 + i as i64);
            world.write_storage::<XDense>().insert(e, v).unwrap();
            xd.insert(i, (id, 2000 + i as i64));
        }
        if c.xb_pat.has(i, c.seed ^ 4) {
            let (v, id) = XBTree::make(4000 + i as i64);
            world.write_storage::<XBTree>().insert(e, v).unwrap();
            xb.insert(i, (id, 4000 + i as i64));
        }
    }
    if c.unmerged > 0 {
        let victims: Vec<Entity> = alive.values().copied().take(c.unmerged as usize).collect();
        for e in victims {
            let _ = world.entities().delete(e);
        }
    }
    let mut bits = BTreeSet::new();
    let mut bitset = BitSet::new();
    let mut bits2 = BTreeSet::new();
    let mut bitset2 = BitSet::new();
    for i in 0..c.width + c.unmerged as u32 + 3 {
        if c.bits_pat.has(i, c.seed ^ 5) {
            bits.insert(i);
            bitset.add(i);
        }
        if c.xf_pat.has(i, c.seed ^ 6) {
            bits2.insert(i);
            bitset2.add(i);
        }
    }
    Contents {
        world,
        alive,
        a,
        xd,
        xf,
        xb,
        bits,
        bitset,
        bits2,
        bitset2,
    }
}

/// The contents are built through ordinary (sequential) world operations. If the storages do not
/// hold what those operations should have left - e.g. because entity deletion did not purge - the
/// discrepancy belongs to the properties about those operations, not to the parallel join.
fn verify_setup<A: TComp>(k: &Contents) -> Option<Viol>
where
    A::Storage: Default,
{
    use hibitset::BitSetLike;
    let check = |name: &str, mask: Vec<u32>, model: Vec<u32>| -> Option<Viol> {
        if mask != model {
            Some(viol(
                &["C05", "C04"],
                "join-setup",
                format!(
                    "before any parallel join: storage {} holds indices {:?}..., the sequential setup (insert, delete_entities) should have left {:?}...",
                    name,
                    mask.iter().filter(|i| !model.contains(i)).take(5).collect::<Vec<_>>(),
                    model.iter().filter(|i| !mask.contains(i)).take(5).collect::<Vec<_>>()
                ),
            ))
        } else {
            None
        }
    };
    let m: Vec<u32> = k.world.read_storage::<A>().mask().iter().collect();
    if let Some(v) = check("A", m, k.a.keys().copied().collect()) {
        return Some(v);
    }
    let m: Vec<u32> = k.world.read_storage::<XDense>().mask().iter().collect();
    if let Some(v) = check("XDense", m, k.xd.keys().copied().collect()) {
        return Some(v);
    }
    let m: Vec<u32> = k.world.read_storage::<XFHash>().mask().iter().collect();
    if let Some(v) = check("XFHash", m, k.xf.keys().copied().collect()) {
        return Some(v);
    }
    let m: Vec<u32> = k.world.read_storage::<XBTree>().mask().iter().collect();
    if let Some(v) = check("XBTree", m, k.xb.keys().copied().collect()) {
        return Some(v);
    }
    let ents: Vec<Entity> = {
        let e = k.world.entities();
        let v: Vec<Entity> = (&e).join().collect();
        v
    };
    let exp: Vec<Entity> = k.alive.values().copied().collect();
    if ents != exp {
        return Some(viol(&["C02"], "join-setup", "before any parallel join: the entities join differs from the entities the setup left alive".into()));
    }
    None
}

fn setup_failed(v: Viol) -> RunOut {
    RunOut {
        violation: Some(v),
        stats: DriveStats::default(),
        items: 0,
        expected: 0,
        recorded: None,
        trace: 0,
    }
}

/// What a worker saw for one item.
#[derive(Clone, Debug)]
pub struct Seen {
    pub idx: u32,
    pub err: Option<String>,
}

thread_local! {
    static CUR_TASK: RefCell<Option<TaskCtx>> = const { RefCell::new(None) };
}

pub struct Hooks {
    in_hand: Mutex<HashSet<u32>>,
    overlap: Mutex<Option<u32>>,
}

impl Hooks {
    fn new() -> Self {
        Hooks {
            in_hand: Mutex::new(HashSet::new()),
            overlap: Mutex::new(None),
        }
    }
    fn pause(&self) {
        let t = CUR_TASK.with(|c| c.borrow().clone());
        if let Some(t) = t {
            t.yield_now("h.join_item");
        }
    }
    /// marks the index in hand; yields; returns false if another task already holds it
    pub fn enter(&self, idx: u32) {
        let fresh = self.in_hand.lock().unwrap().insert(idx);
        if !fresh {
            let mut o = self.overlap.lock().unwrap();
            if o.is_none() {
                *o = Some(idx);
            }
        }
        self.pause();
    }
    pub fn mid(&self) {
        self.pause();
    }
    pub fn leave(&self, idx: u32) {
        self.pause();
        self.in_hand.lock().unwrap().remove(&idx);
    }
}

#[derive(Default, Clone, Debug)]
pub struct DriveStats {
    pub leaves: u64,
    pub max_depth: u64,
    pub splits: u64,
    pub split_none: u64,
    pub sched_steps: u64,
    pub sched_switches: u64,
    pub sched_hash: u64,
}

pub struct DriveOut {
    pub seen: Vec<Seen>,
    pub stats: DriveStats,
    pub recorded: Option<Recorded>,
    pub panics: Vec<String>,
    pub overlap: Option<u32>,
    /// MapCollect / FilterCount consumers report what they computed
    pub consumer_count: Option<usize>,
}

fn split_tree<'a, T: 'a>(
    p: Box<dyn VerifProducer<T> + 'a>,
    rng: &mut Rng,
    depth: u8,
    split_pct: u8,
    cap: u8,
    out: &mut Vec<Box<dyn VerifProducer<T> + 'a>>,
    st: &mut DriveStats,
) {
    // the root always tries to split (a bridge that never splits is the sequential join)
    if depth < cap && (depth == 0 || rng.chance(split_pct as u64, 100)) {
        let (a, b) = p.split_box();
        match b {
            Some(b) => {
                st.splits += 1;
                split_tree(a, rng, depth + 1, split_pct, cap, out, st);
                split_tree(b, rng, depth + 1, split_pct, cap, out, st);
            }
            None => {
                // rayon folds a producer whose split() returned None
                st.split_none += 1;
                st.max_depth = st.max_depth.max(depth as u64);
                out.push(a);
            }
        }
    } else {
        st.max_depth = st.max_depth.max(depth as u64);
        out.push(p);
    }
}

pub fn drive<J>(
    par: JoinParIter<J>,
    mode: &Mode,
    handler: &(dyn Fn(J::Type, &Hooks) -> Seen + Sync),
) -> DriveOut
where
    J: ParJoin + Send,
    J::Mask: Send + Sync,
    J::Type: Send,
    J::Value: Send + Sync,
{
    let hooks = Hooks::new();
    let seen: Mutex<Vec<Seen>> = Mutex::new(vec![]);
    let mut stats = DriveStats::default();
    let mut recorded = None;
    let mut panics = vec![];
    let mut consumer_count = None;
    match mode {
        Mode::A {
            split_seed,
            split_pct,
            depth_cap,
            tasks,
            baton,
            recorded: rec_in,
        } => {
            let (res, st) = verif_with_producer(par, |root| {
                let mut rng = Rng::new(*split_seed);
                let mut leaves = vec![];
                let mut st = DriveStats::default();
                split_tree(root, &mut rng, 0, *split_pct, *depth_cap, &mut leaves, &mut st);
                st.leaves = leaves.len() as u64;
                let ntasks = (*tasks as usize).clamp(1, 8).min(leaves.len().max(1));
                let mut groups: Vec<Vec<Box<dyn VerifProducer<J::Type> + '_>>> =
                    (0..ntasks).map(|_| vec![]).collect();
                for (i, l) in leaves.into_iter().enumerate() {
                    groups[i % ntasks].push(l);
                }
                let hooks = &hooks;
                let seen = &seen;
                let bodies: Vec<TaskBody> = groups
                    .into_iter()
                    .map(|g| {
                        let b: TaskBody = Box::new(move |t: &TaskCtx| {
                            CUR_TASK.with(|c| *c.borrow_mut() = Some(t.clone()));
                            for leaf in g {
                                t.yield_now("h.leaf_start");
                                leaf.fold_box(&mut |item| {
                                    let s = handler(item, hooks);
                                    seen.lock().unwrap().push(s);
                                });
                            }
                            CUR_TASK.with(|c| *c.borrow_mut() = None);
                        });
                        b
                    })
                    .collect();
                let res = run_tasks(baton, rec_in.clone(), bodies);
                (res, st)
            });
            stats = st;
            stats.sched_steps = res.stats.steps;
            stats.sched_switches = res.stats.switches;
            stats.sched_hash = res.stats.sched_hash;
            recorded = Some(res.recorded);
            panics = res.panics.into_iter().map(|p| p.1).collect();
        }
        Mode::B { threads, consumer } => {
            // each virtual pool must be built in a fresh OS thread
            let n = *threads as usize;
            let consumer = *consumer;
            let hooks = &hooks;
            let seen_ref = &seen;
            let r = std::thread::scope(|s| {
                s.spawn(move || {
                    let pool = rayon::ThreadPoolBuilder::new()
                        .num_threads(n.max(1))
                        .use_current_thread()
                        .spawn_handler(|_| Ok(()))
                        .build()
                        .expect("virtual pool");
                    pool.install(|| match consumer {
                        Consumer::ForEach => {
                            par.for_each(|item| {
                                let s = handler(item, hooks);
                                seen_ref.lock().unwrap().push(s);
                            });
                            None
                        }
                        Consumer::MapCollect => {
                            let v: Vec<Seen> = par.map(|item| handler(item, hooks)).collect();
                            let n = v.len();
                            seen_ref.lock().unwrap().extend(v);
                            Some(n)
                        }
                        Consumer::FilterCount => {
                            let n = par
                                .map(|item| {
                                    let s = handler(item, hooks);
                                    seen_ref.lock().unwrap().push(s);
                                    1usize
                                })
                                .filter(|x| *x == 1)
                                .count();
                            Some(n)
                        }
                    })
                })
                .join()
            });
            match r {
                Ok(c) => consumer_count = c,
                Err(e) => panics.push(crate::util::panic_message(&e)),
            }
        }
    }
    let overlap = *hooks.overlap.lock().unwrap();
    DriveOut {
        seen: seen.into_inner().unwrap(),
        stats,
        recorded,
        panics,
        overlap,
        consumer_count,
    }
}

/// new payload written by a worker for index `i`
fn newp(seed: u64, i: u32) -> i64 {
    (mix(&[seed, i as u64]) % 1_000_000) as i64 + 10_000
}

fn chk<T: PartialEq + std::fmt::Debug>(what: &str, idx: u32, got: T, exp: T) -> Option<String> {
    if got != exp {
        Some(format!("index {}: {} is {:?}, expected {:?}", idx, what, got, exp))
    } else {
        None
    }
}

pub struct RunOut {
    pub violation: Option<Viol>,
    pub stats: DriveStats,
    pub items: u64,
    pub expected: u64,
    pub recorded: Option<Recorded>,
    pub trace: u64,
}

fn viol(props: &[&str], oracle: &str, detail: String) -> Viol {
    Viol {
        props: props.iter().map(|s| s.to_string()).collect(),
        oracle: oracle.into(),
        detail,
    }
}

/// Expected index set of the shape, from the reference contents (never from the sequential join).
fn expected(c: &JCase, k: &Contents) -> BTreeSet<u32> {
    let mut s = BTreeSet::new();
    match c.shape {
        Shape::BareMut => {
            // without the entities member the join is over the storage mask alone - which holds
            // exactly the components of entities that were not deleted
            for i in k.a.keys() {
                s.insert(*i);
            }
            return s;
        }
        _ => {}
    }
    for (i, _) in &k.alive {
        if !k.a.contains_key(i) {
            continue;
        }
        let ok = match c.shape {
            Shape::MutOnly | Shape::RestrictMut | Shape::RestrictRead | Shape::ReadOnly | Shape::MutAndMaybe => true,
            Shape::MutAndRead => k.xd.contains_key(i),
            Shape::MutAndNot => !k.xd.contains_key(i),
            Shape::BitsetAndMut => k.bits.contains(i),
            Shape::Five => k.xb.contains_key(i) && k.xd.contains_key(i),
            Shape::BareMut | Shape::MaybeBits => true,
            Shape::BitXor => k.bits.contains(i) != k.bits2.contains(i),
            Shape::BitOrNot => k.bits.contains(i) || !k.bits2.contains(i),
            Shape::Nested => k.xd.contains_key(i),
        };
        if ok {
            s.insert(*i);
        }
    }
    s
}

fn props_for(shape: Shape) -> Vec<&'static str> {
    match shape {
        Shape::RestrictMut | Shape::RestrictRead => vec!["C13", "C07"],
        _ => vec!["C07"],
    }
}

macro_rules! run_for_kind {
    ($fname:ident, $A:ty, mutable) => {
        fn $fname(c: &JCase) -> RunOut {
            crate::util::probe_mark(&["C05", "C04"]);
            let k = match std::panic::catch_unwind(std::panic::AssertUnwindSafe(|| build::<$A>(c))) {
                Ok(k) => k,
                Err(e) => {
                    return setup_failed(viol(
                        &["C05", "C04"],
                        "join-setup",
                        format!("building the contents through sequential world operations panicked: {}", crate::util::panic_message(&e)),
                    ))
                }
            };
            if let Some(v) = verify_setup::<$A>(&k) {
                return setup_failed(v);
            }
            crate::util::probe_mark(&props_for(c.shape));
            let zst = <$A as TComp>::KIND.zst();
            let seed = c.seed;
            let exp = expected(c, &k);
            let ps = props_for(c.shape);
            let out: DriveOut = {
                let ents = k.world.entities();
                let mut sa = k.world.write_storage::<$A>();
                let sd = k.world.read_storage::<XDense>();
                let sf = k.world.read_storage::<XFHash>();
                let mut sb = k.world.write_storage::<XBTree>();
                let kk = &k;
                let own = |idx: u32, e: Option<Entity>, v: V| -> Option<String> {
                    if let Some(e) = e {
                        if let Some(m) = chk("entity handle", idx, Some(e), kk.alive.get(&idx).copied()) {
                            return Some(m);
                        }
                    }
                    chk("component delivered", idx, Some(v), kk.a.get(&idx).copied())
                };
                match c.shape {
                    Shape::MutOnly => drive((&ents, &mut sa).par_join(), &c.mode, &|(e, mut acc), h| {
                        let idx = e.id();
                        h.enter(idx);
                        let mut err = own(idx, Some(e), (*acc).peek());
                        if c.nest && idx % 3 == 0 && idx < 200 && err.is_none() {
                            // a nested parallel join from inside the closure
                            let n = (&sd).par_join().count();
                            err = chk("nested parallel join count", idx, n, kk.xd.len());
                        }
                        h.mid();
                        acc.access_mut().write(newp(seed, idx));
                        h.leave(idx);
                        if err.is_none() && !zst {
                            err = chk("value after write", idx, (*acc).peek().1, newp(seed, idx));
                        }
                        Seen { idx, err }
                    }),
                    Shape::BareMut => drive((&mut sa).par_join(), &c.mode, &|mut acc, h| {
                        // no index in the item: identify by the value (unique per index)
                        let v = (*acc).peek();
                        let idx = if zst { u32::MAX } else { (v.1 - 1000) as u32 };
                        if !zst {
                            h.enter(idx);
                        }
                        let err = if zst { None } else { own(idx, None, v) };
                        if !zst {
                            h.mid();
                            acc.access_mut().write(newp(seed, idx));
                            h.leave(idx);
                        }
                        Seen { idx, err }
                    }),
                    Shape::MutAndRead => drive((&ents, &mut sa, &sd).par_join(), &c.mode, &|(e, mut acc, d), h| {
                        let idx = e.id();
                        h.enter(idx);
                        let mut err = own(idx, Some(e), (*acc).peek());
                        if err.is_none() {
                            err = chk("read member", idx, Some(d.peek()), kk.xd.get(&idx).copied());
                        }
                        h.mid();
                        acc.access_mut().write(newp(seed, idx));
                        h.leave(idx);
                        Seen { idx, err }
                    }),
                    Shape::MutAndNot => drive((&ents, &mut sa, !&sd).par_join(), &c.mode, &|(e, mut acc, ()), h| {
                        let idx = e.id();
                        h.enter(idx);
                        let err = own(idx, Some(e), (*acc).peek());
                        h.mid();
                        acc.access_mut().write(newp(seed, idx));
                        h.leave(idx);
                        Seen { idx, err }
                    }),
                    Shape::MutAndMaybe => drive((&ents, &mut sa, (&sf).maybe()).par_join(), &c.mode, &|(e, mut acc, f), h| {
                        let idx = e.id();
                        h.enter(idx);
                        let mut err = own(idx, Some(e), (*acc).peek());
                        if err.is_none() {
                            err = chk("optional member", idx, f.map(|x| x.peek()), kk.xf.get(&idx).copied());
                        }
                        h.mid();
                        acc.access_mut().write(newp(seed, idx));
                        h.leave(idx);
                        Seen { idx, err }
                    }),
                    Shape::BitsetAndMut => drive((&ents, &k.bitset, &mut sa).par_join(), &c.mode, &|(e, bi, mut acc), h| {
                        let idx = e.id();
                        h.enter(idx);
                        let mut err = own(idx, Some(e), (*acc).peek());
                        if err.is_none() {
                            err = chk("bit set member", idx, bi, idx);
                        }
                        h.mid();
                        acc.access_mut().write(newp(seed, idx));
                        h.leave(idx);
                        Seen { idx, err }
                    }),
                    Shape::RestrictMut => {
                        let mut r = sa.restrict_mut();
                        drive((&ents, &mut r).par_join(), &c.mode, &|(e, mut item), h| {
                            let idx = e.id();
                            h.enter(idx);
                            let mut err = own(idx, Some(e), item.get().peek());
                            h.mid();
                            // a seeded subset is fetched mutably and written
                            if newp(seed, idx) % 3 != 0 {
                                item.get_mut().access_mut().write(newp(seed, idx));
                                if err.is_none() && !zst {
                                    err = chk("restricted read after write", idx, item.get().peek().1, newp(seed, idx));
                                }
                            }
                            h.leave(idx);
                            Seen { idx, err }
                        })
                    }
                    Shape::Five => drive((&ents, &mut sa, &mut sb, &sd, (&sf).maybe()).par_join(), &c.mode, &|(e, mut acc, b, d, f), h| {
                        let idx = e.id();
                        h.enter(idx);
                        let mut err = own(idx, Some(e), (*acc).peek());
                        if err.is_none() {
                            err = chk("second mutable member", idx, Some(b.peek()), kk.xb.get(&idx).copied());
                        }
                        if err.is_none() {
                            err = chk("read member", idx, Some(d.peek()), kk.xd.get(&idx).copied());
                        }
                        if err.is_none() {
                            err = chk("optional member", idx, f.map(|x| x.peek()), kk.xf.get(&idx).copied());
                        }
                        h.mid();
                        acc.access_mut().write(newp(seed, idx));
                        b.write(newp(seed, idx) + 1);
                        h.leave(idx);
                        Seen { idx, err }
                    }),
                    Shape::BitXor => drive((&ents, hibitset::BitSetXor(&k.bitset, &k.bitset2), &mut sa).par_join(), &c.mode, &|(e, bi, mut acc), h| {
                        let idx = e.id();
                        h.enter(idx);
                        let mut err = own(idx, Some(e), (*acc).peek());
                        if err.is_none() {
                            err = chk("bit set member", idx, bi, idx);
                        }
                        h.mid();
                        acc.access_mut().write(newp(seed, idx));
                        h.leave(idx);
                        Seen { idx, err }
                    }),
                    Shape::BitOrNot => drive((&ents, hibitset::BitSetOr(&k.bitset, hibitset::BitSetNot(&k.bitset2)), &mut sa).par_join(), &c.mode, &|(e, bi, mut acc), h| {
                        let idx = e.id();
                        h.enter(idx);
                        let mut err = own(idx, Some(e), (*acc).peek());
                        if err.is_none() {
                            err = chk("bit set member", idx, bi, idx);
                        }
                        h.mid();
                        acc.access_mut().write(newp(seed, idx));
                        h.leave(idx);
                        Seen { idx, err }
                    }),
                    Shape::MaybeBits => drive((&ents, &mut sa, (&k.bitset).maybe()).par_join(), &c.mode, &|(e, mut acc, b), h| {
                        let idx = e.id();
                        h.enter(idx);
                        let mut err = own(idx, Some(e), (*acc).peek());
                        if err.is_none() {
                            err = chk("optional bit set member", idx, b, if kk.bits.contains(&idx) { Some(idx) } else { None });
                        }
                        h.mid();
                        acc.access_mut().write(newp(seed, idx));
                        h.leave(idx);
                        Seen { idx, err }
                    }),
                    Shape::Nested => drive(((&ents, &mut sa), (&sd, (&sf).maybe())).par_join(), &c.mode, &|((e, mut acc), (d, f)), h| {
                        let idx = e.id();
                        h.enter(idx);
                        let mut err = own(idx, Some(e), (*acc).peek());
                        if err.is_none() {
                            err = chk("read member", idx, Some(d.peek()), kk.xd.get(&idx).copied());
                        }
                        if err.is_none() {
                            err = chk("optional member", idx, f.map(|x| x.peek()), kk.xf.get(&idx).copied());
                        }
                        h.mid();
                        acc.access_mut().write(newp(seed, idx));
                        h.leave(idx);
                        Seen { idx, err }
                    }),
                    _ => unreachable!("read-only shapes are handled by the read-only runner"),
                }
            };
            finish::<$A>(c, k, exp, out, &ps, true)
        }
    };
    ($fname:ident, $A:ty, readonly) => {
        fn $fname(c: &JCase) -> RunOut {
            crate::util::probe_mark(&["C05", "C04"]);
            let k = match std::panic::catch_unwind(std::panic::AssertUnwindSafe(|| build::<$A>(c))) {
                Ok(k) => k,
                Err(e) => {
                    return setup_failed(viol(
                        &["C05", "C04"],
                        "join-setup",
                        format!("building the contents through sequential world operations panicked: {}", crate::util::panic_message(&e)),
                    ))
                }
            };
            if let Some(v) = verify_setup::<$A>(&k) {
                return setup_failed(v);
            }
            crate::util::probe_mark(&props_for(c.shape));
            let exp = expected(c, &k);
            let ps = props_for(c.shape);
            let out: DriveOut = {
                let ents = k.world.entities();
                let sa = k.world.read_storage::<$A>();
                let kk = &k;
                let own = |idx: u32, e: Entity, v: V| -> Option<String> {
                    if let Some(m) = chk("entity handle", idx, Some(e), kk.alive.get(&idx).copied()) {
                        return Some(m);
                    }
                    chk("component delivered", idx, Some(v), kk.a.get(&idx).copied())
                };
                match c.shape {
                    Shape::RestrictRead => {
                        let r = sa.restrict();
                        drive((&ents, &r).par_join(), &c.mode, &|(e, item), h| {
                            let idx = e.id();
                            h.enter(idx);
                            let mut err = own(idx, e, item.get().peek());
                            // look up a neighbour through the item: follows the storage's own rules
                            if err.is_none() {
                                if let Some((&oi, &oe)) = kk.alive.range(idx + 1..).next() {
                                    err = chk("get_other", idx, item.get_other(oe).map(|x| x.peek()), kk.a.get(&oi).copied());
                                }
                            }
                            h.leave(idx);
                            Seen { idx, err }
                        })
                    }
                    _ => drive((&ents, &sa).par_join(), &c.mode, &|(e, a), h| {
                        let idx = e.id();
                        h.enter(idx);
                        let err = own(idx, e, a.peek());
                        h.leave(idx);
                        Seen { idx, err }
                    }),
                }
            };
            finish::<$A>(c, k, exp, out, &ps, false)
        }
    };
}

fn finish<A: TComp>(
    c: &JCase,
    k: Contents,
    exp: BTreeSet<u32>,
    out: DriveOut,
    ps: &[&str],
    mutated: bool,
) -> RunOut
where
    A::Storage: Default,
{
    let zst = A::KIND.zst();
    let mut th = TraceHash::default();
    th.add(out.stats.sched_hash);
    th.add(out.stats.leaves);
    th.add(out.seen.len() as u64);
    let mk = |v: Option<Viol>| RunOut {
        violation: v,
        stats: out.stats.clone(),
        items: out.seen.len() as u64,
        expected: exp.len() as u64,
        recorded: out.recorded.clone(),
        trace: th.0,
    };
    if let Some(p) = out.panics.first() {
        return mk(Some(viol(ps, "par-join-panicked", format!("a worker panicked: {} (at {})", p, crate::util::last_panic_location()))));
    }
    if let Some(i) = out.overlap {
        return mk(Some(viol(ps, "item-in-two-hands", format!("index {} was handed to a second worker while the first still held it", i))));
    }
    if let Some(s) = out.seen.iter().find(|s| s.err.is_some()) {
        return mk(Some(viol(ps, "item-content", s.err.clone().unwrap())));
    }
    // multiset of delivered indices == expected set, each exactly once
    let bare_zst = c.shape == Shape::BareMut && zst;
    if bare_zst {
        if out.seen.len() != exp.len() {
            return mk(Some(viol(ps, "delivered-multiset", format!("{} items delivered, expected {}", out.seen.len(), exp.len()))));
        }
    } else {
        let mut count: BTreeMap<u32, u32> = BTreeMap::new();
        for s in &out.seen {
            *count.entry(s.idx).or_insert(0) += 1;
        }
        if let Some((i, n)) = count.iter().find(|(_, n)| **n > 1) {
            return mk(Some(viol(ps, "delivered-multiset", format!("index {} was delivered {} times", i, n))));
        }
        let got: BTreeSet<u32> = count.keys().copied().collect();
        if got != exp {
            let missing: Vec<&u32> = exp.difference(&got).take(5).collect();
            let extra: Vec<&u32> = got.difference(&exp).take(5).collect();
            return mk(Some(viol(
                ps,
                "delivered-multiset",
                format!(
                    "{} items delivered, {} expected; missing e.g. {:?}, unexpected e.g. {:?}",
                    got.len(),
                    exp.len(),
                    missing,
                    extra
                ),
            )));
        }
    }
    if let Some(n) = out.consumer_count {
        if n != exp.len() {
            return mk(Some(viol(ps, "consumer-result", format!("the consumer computed {} items, expected {}", n, exp.len()))));
        }
    }
    // storages after the join: the mutation applied exactly once per item, nothing else touched
    if !zst {
        let sa = k.world.read_storage::<A>();
        for (i, e) in &k.alive {
            let cur = sa.get(*e).map(|x| x.peek());
            let before = k.a.get(i).copied();
            let want = match before {
                Some((id, p)) => {
                    let written = mutated
                        && exp.contains(i)
                        && !(c.shape == Shape::RestrictMut && newp(c.seed, *i) % 3 == 0);
                    Some((id, if written { newp(c.seed, *i) } else { p }))
                }
                None => None,
            };
            if cur != want {
                return mk(Some(viol(
                    ps,
                    "storage-after-join",
                    format!("index {}: component after the parallel join is {:?}, expected {:?}", i, cur, want),
                )));
            }
        }
        if c.shape == Shape::Five {
            let sb = k.world.read_storage::<XBTree>();
            for (i, e) in &k.alive {
                let cur = sb.get(*e).map(|x| x.peek());
                let want = k.xb.get(i).map(|(id, p)| (*id, if exp.contains(i) { newp(c.seed, *i) + 1 } else { *p }));
                if cur != want {
                    return mk(Some(viol(
                        ps,
                        "storage-after-join",
                        format!("index {}: second mutable member after the join is {:?}, expected {:?}", i, cur, want),
                    )));
                }
            }
        }
    }
    let r = mk(None);
    drop(k);
    r
}

run_for_kind!(run_mut_vec, CVec, mutable);
run_for_kind!(run_mut_dense, CDense, mutable);
run_for_kind!(run_mut_default, CDefault, mutable);
run_for_kind!(run_mut_hash, CHash, mutable);
run_for_kind!(run_mut_btree, CBTree, mutable);
run_for_kind!(run_mut_null, CNull, mutable);
run_for_kind!(run_ro_vec, CVec, readonly);
run_for_kind!(run_ro_dense, CDense, readonly);
run_for_kind!(run_ro_default, CDefault, readonly);
run_for_kind!(run_ro_hash, CHash, readonly);
run_for_kind!(run_ro_btree, CBTree, readonly);
run_for_kind!(run_ro_null, CNull, readonly);
run_for_kind!(run_ro_fvec, FVec, readonly);
run_for_kind!(run_ro_fdense, FDense, readonly);
run_for_kind!(run_ro_fhash, FHash, readonly);
run_for_kind!(run_ro_dvec, DVec, readonly);
run_for_kind!(run_ro_ddense, DDense, readonly);
run_for_kind!(run_ro_dbtree, DBTree, readonly);

pub const RO_KINDS: [(Wrap, Inner); 12] = [
    (Wrap::Plain, Inner::Vec),
    (Wrap::Plain, Inner::Dense),
    (Wrap::Plain, Inner::DefaultVec),
    (Wrap::Plain, Inner::Hash),
    (Wrap::Plain, Inner::BTree),
    (Wrap::Plain, Inner::Null),
    (Wrap::Flagged, Inner::Vec),
    (Wrap::Flagged, Inner::Dense),
    (Wrap::Flagged, Inner::Hash),
    (Wrap::DerefFlagged, Inner::Vec),
    (Wrap::DerefFlagged, Inner::Dense),
    (Wrap::DerefFlagged, Inner::BTree),
];

pub fn run_case(c: &JCase) -> RunOut {
    crate::util::probe_mark(&props_for(c.shape));
    let ro = matches!(c.shape, Shape::ReadOnly | Shape::RestrictRead);
    use Inner::*;
    use Wrap::*;
    match (ro, c.a_kind.wrap, c.a_kind.inner) {
        (false, Plain, Vec) => run_mut_vec(c),
        (false, Plain, Dense) => run_mut_dense(c),
        (false, Plain, DefaultVec) => run_mut_default(c),
        (false, Plain, Hash) => run_mut_hash(c),
        (false, Plain, BTree) => run_mut_btree(c),
        (false, Plain, Null) => run_mut_null(c),
        (true, Plain, Vec) => run_ro_vec(c),
        (true, Plain, Dense) => run_ro_dense(c),
        (true, Plain, DefaultVec) => run_ro_default(c),
        (true, Plain, Hash) => run_ro_hash(c),
        (true, Plain, BTree) => run_ro_btree(c),
        (true, Plain, Null) => run_ro_null(c),
        (true, Flagged, Vec) => run_ro_fvec(c),
        (true, Flagged, Dense) => run_ro_fdense(c),
        (true, Flagged, Hash) => run_ro_fhash(c),
        (true, DerefFlagged, Vec) => run_ro_dvec(c),
        (true, DerefFlagged, Dense) => run_ro_ddense(c),
        (true, DerefFlagged, BTree) => run_ro_dbtree(c),
        _ => run_mut_vec(&JCase {
            a_kind: Kind {
                wrap: Plain,
                inner: Vec,
            },
            ..c.clone()
        }),
    }
}

fn gen_pattern(r: &mut Rng, dense_bias: bool) -> Pattern {
    match r.below(if dense_bias { 8 } else { 10 }) {
        0..=2 => Pattern::All,
        3 => Pattern::Every(r.range(2, 7) as u32),
        4 => Pattern::Random(r.range(2, 5) as u32),
        5 => Pattern::Random(*r.pick(&[17u32, 50, 300])),
        6 => Pattern::Boundaries,
        7 => Pattern::Blocks(*r.pick(&[3u32, 64, 100, 4096])),
        8 => Pattern::Every(*r.pick(&[64u32, 4096, 63, 65])),
        _ => Pattern::None,
    }
}

pub fn gen_case(profile: &str, seed: u64) -> JCase {
    let mut r = Rng::new(mix(&[seed, 0x7015]));
    let width = match r.below(100) {
        0..=29 => r.range(1, 40) as u32,
        30..=59 => r.range(60, 200) as u32,
        60..=84 => r.range(500, 2000) as u32,
        85..=97 => r.range(4000, 9000) as u32,
        _ => 263_000 + r.below(2000) as u32,
    };
    let ro = profile == "readonly" || (profile != "restricted" && r.chance(1, 8));
    let shape = if profile == "restricted" {
        if r.chance(2, 3) {
            Shape::RestrictMut
        } else {
            Shape::RestrictRead
        }
    } else if ro {
        *r.pick(&[Shape::ReadOnly, Shape::RestrictRead])
    } else {
        *r.pick(&MUT_SHAPES)
    };
    let ro = matches!(shape, Shape::ReadOnly | Shape::RestrictRead);
    let a_kind = if ro {
        let (w, i) = *r.pick(&RO_KINDS);
        Kind { wrap: w, inner: i }
    } else {
        Kind {
            wrap: Wrap::Plain,
            inner: *r.pick(&[Inner::Vec, Inner::Dense, Inner::DefaultVec, Inner::Hash, Inner::BTree, Inner::Null]),
        }
    };
    let mode = if r.chance(1, 2) {
        Mode::A {
            split_seed: r.next_u64(),
            split_pct: *r.pick(&[30u8, 60, 85, 100]),
            depth_cap: *r.pick(&[1u8, 2, 4, 7, 12]),
            tasks: r.range(1, 5) as u8,
            baton: BatonCfg {
                policy: match r.below(6) {
                    0 | 1 => Policy::Uniform,
                    2 => Policy::Sticky { stay_pct: 60 },
                    3 | 4 => Policy::Pct { d: r.range(1, 3) as u8 },
                    _ => Policy::RoundRobin,
                },
                seed: r.next_u64(),
                est_len: 200,
                max_steps: if width > 5000 { 3_000 } else { 20_000 },
                buggify: vec![],
            },
            recorded: None,
        }
    } else {
        Mode::B {
            threads: *r.pick(&[1u32, 2, 3, 4, 7, 16, 64, 1000]),
            consumer: *r.pick(&[Consumer::ForEach, Consumer::ForEach, Consumer::MapCollect, Consumer::FilterCount]),
        }
    };
    let nest = matches!(mode, Mode::B { .. }) && shape == Shape::MutOnly && width <= 9000 && r.chance(1, 2);
    JCase {
        seed,
        width,
        alive: gen_pattern(&mut r, true),
        unmerged: if r.chance(1, 3) { r.range(1, 3) as u8 } else { 0 },
        a_kind,
        a_pat: gen_pattern(&mut r, true),
        xd_pat: gen_pattern(&mut r, false),
        xf_pat: gen_pattern(&mut r, false),
        xb_pat: gen_pattern(&mut r, true),
        bits_pat: gen_pattern(&mut r, false),
        shape,
        mode,
        nest,
    }
}

pub struct JoinSim;

fn report(c: &JCase, o: RunOut, want_case: bool) -> Report {
    let mut counters = BTreeMap::new();
    let mut put = |k: String, v: u64| {
        if v > 0 {
            *counters.entry(k).or_insert(0) += v;
        }
    };
    put("items_delivered".into(), o.items);
    put("leaves".into(), o.stats.leaves);
    put("splits".into(), o.stats.splits);
    put("split_returned_none".into(), o.stats.split_none);
    put("scheduler_steps".into(), o.stats.sched_steps);
    put("scheduler_switches".into(), o.stats.sched_switches);
    put(format!("shape.{:?}", c.shape), 1);
    put(format!("kind.{}", c.a_kind.name()), 1);
    match &c.mode {
        Mode::A { .. } => {
            put("mode.A_simulated_bridge".into(), 1);
            put(format!("probe.split_depth_reached_{}", o.stats.max_depth.min(12)), 1);
            if o.stats.leaves >= 8 {
                put("probe.at_least_8_leaves".into(), 1);
            }
        }
        Mode::B { threads, consumer } => {
            put("mode.B_real_bridge_virtual_pool".into(), 1);
            put(format!("pool_size.{}", threads), 1);
            put(format!("consumer.{:?}", consumer), 1);
        }
    }
    if c.width > 262_144 {
        put("probe.width_crosses_262144".into(), 1);
    } else if c.width > 4096 {
        put("probe.width_crosses_4096".into(), 1);
    } else if c.width > 64 {
        put("probe.width_crosses_64".into(), 1);
    }
    let nt = if o.expected >= 2 && (o.stats.leaves >= 2 || matches!(c.mode, Mode::B { threads, .. } if threads >= 2)) {
        Some(mix(&[o.trace, c.seed]))
    } else {
        None
    };
    let mut sets = BTreeMap::new();
    sets.insert("interleavings".to_string(), vec![o.stats.sched_hash]);
    let failed = o.violation.is_some();
    let mut cc = c.clone();
    if let (Mode::A { recorded, .. }, Some(r)) = (&mut cc.mode, &o.recorded) {
        if recorded.is_none() {
            *recorded = Some(r.clone());
        }
    }
    Report {
        violation: o.violation,
        case: if failed || want_case {
            Some(serde_json::to_value(&cc).unwrap())
        } else {
            None
        },
        trace_hash: o.trace,
        counters,
        sets,
        nontrivial: nt,
        executions: 1,
    }
}

fn fails(c: &JCase, prop: &str, oracle: &str) -> bool {
    match run_case(c).violation {
        Some(v) => v.oracle == oracle && v.concerns(prop),
        None => false,
    }
}

fn shrink(mut c: JCase, prop: &str, oracle: &str) -> JCase {
    if !fails(&c, prop, oracle) {
        return c;
    }
    let mut budget = 300;
    let attempt = |cand: JCase, c: &mut JCase, budget: &mut i32| -> bool {
        if *budget <= 0 {
            return false;
        }
        *budget -= 1;
        if fails(&cand, prop, oracle) {
            *c = cand;
            true
        } else {
            false
        }
    };
    // narrower index space
    loop {
        let mut progressed = false;
        for w in [c.width / 2, c.width * 3 / 4, c.width.saturating_sub(1)] {
            if w >= 1 && w < c.width {
                let mut cand = c.clone();
                cand.width = w;
                if attempt(cand, &mut c, &mut budget) {
                    progressed = true;
                    break;
                }
            }
        }
        if !progressed || budget <= 0 {
            break;
        }
    }
    // simpler membership
    for f in 0..6 {
        let mut cand = c.clone();
        match f {
            0 => cand.alive = Pattern::All,
            1 => cand.a_pat = Pattern::All,
            2 => cand.xd_pat = Pattern::None,
            3 => cand.xf_pat = Pattern::None,
            4 => cand.bits_pat = Pattern::All,
            _ => cand.unmerged = 0,
        }
        attempt(cand, &mut c, &mut budget);
    }
    // simpler shape / kind
    {
        let mut cand = c.clone();
        if !matches!(cand.shape, Shape::ReadOnly | Shape::RestrictRead | Shape::RestrictMut) {
            cand.shape = Shape::MutOnly;
            attempt(cand, &mut c, &mut budget);
        }
        let mut cand = c.clone();
        cand.a_kind = Kind {
            wrap: Wrap::Plain,
            inner: Inner::Vec,
        };
        attempt(cand, &mut c, &mut budget);
    }
    // simpler mode
    if let Mode::A { tasks, depth_cap, .. } = c.mode.clone() {
        for t in 1..tasks {
            let mut cand = c.clone();
            if let Mode::A { tasks, recorded, .. } = &mut cand.mode {
                *tasks = t;
                *recorded = None;
            }
            if attempt(cand, &mut c, &mut budget) {
                break;
            }
        }
        for d in 0..depth_cap {
            let mut cand = c.clone();
            if let Mode::A { depth_cap, recorded, .. } = &mut cand.mode {
                *depth_cap = d;
                *recorded = None;
            }
            if attempt(cand, &mut c, &mut budget) {
                break;
            }
        }
        // pin the schedule, then remove context switches
        let o = run_case(&c);
        if let (Mode::A { recorded, .. }, Some(r)) = (&mut c.mode, o.recorded) {
            *recorded = Some(r);
        }
        if let Mode::A { recorded: Some(rec), .. } = c.mode.clone() {
            let mut cand = c.clone();
            if let Mode::A { recorded, .. } = &mut cand.mode {
                *recorded = Some(Recorded::default());
            }
            if !attempt(cand, &mut c, &mut budget) {
                let mut rec = rec;
                let n = rec.choices.len().min(200);
                for j in 0..n {
                    if rec.choices[j] == STAY {
                        continue;
                    }
                    let old = rec.choices[j];
                    rec.choices[j] = STAY;
                    let mut cand = c.clone();
                    if let Mode::A { recorded, .. } = &mut cand.mode {
                        *recorded = Some(rec.clone());
                    }
                    if !attempt(cand, &mut c, &mut budget) {
                        rec.choices[j] = old;
                    }
                }
            }
        }
    } else if let Mode::B { threads, .. } = c.mode.clone() {
        for t in [1u32, 2, 3, 4] {
            if t < threads {
                let mut cand = c.clone();
                if let Mode::B { threads, .. } = &mut cand.mode {
                    *threads = t;
                }
                if attempt(cand, &mut c, &mut budget) {
                    break;
                }
            }
        }
    }
    c
}

impl Engine for JoinSim {
    fn name(&self) -> &'static str {
        "joinsim"
    }
    fn run_seed(&self, profile: &str, seed: u64, _prop: &str, want_case: bool) -> Report {
        let c = gen_case(profile, seed);
        let o = run_case(&c);
        report(&c, o, want_case)
    }
    fn replay(&self, case: &serde_json::Value, _prop: &str) -> Report {
        let c: JCase = match serde_json::from_value(case.clone()) {
            Ok(c) => c,
            Err(e) => {
                return Report {
                    violation: Some(viol(&[], "harness", format!("cannot parse case: {}", e))),
                    ..Default::default()
                }
            }
        };
        let o = run_case(&c);
        report(&c, o, true)
    }
    fn shrink(&self, case: serde_json::Value, prop: &str, oracle: &str) -> serde_json::Value {
        let c: JCase = serde_json::from_value(case).unwrap();
        serde_json::to_value(shrink(c, prop, oracle)).unwrap()
    }
    fn rule(&self, _profile: &str, _prop: &str) -> String {
        "a case is one seeded storage content (width up to 265k indices; dense / sparse / boundary-straddling membership per member), one member mix (10 tuple shapes over 6 mutable and 12 read-only storage configurations) and one way of running it: mode A = seeded split tree over the real producer with leaves as baton-scheduled tasks, mode B = the real rayon bridge on a virtual pool of N in {1,2,3,4,7,16,64,1000}; non-trivial: >= 2 items expected and (>= 2 leaves or pool size >= 2); distinct: hash of (content seed, schedule, leaves, items)".into()
    }
    fn components(&self) -> serde_json::Value {
        serde_json::json!({
            "real": ["JoinParIter", "JoinProducer::{split,fold_with}", "every ParJoin::{open,get} impl used by the shapes", "SharedGetMutOnly / SharedGetOnly", "hibitset BitProducer", "mode B: rayon bridge_unindexed and the for_each/map/collect/filter/count consumers"],
            "stub": ["mode A: rayon's scheduler is replaced by a seeded split recursion + baton tasks", "mode B: N-1 of the pool's N workers never start (use_current_thread + no-op spawn handler), so there are no steals and one seed is one execution"]
        })
    }
}
