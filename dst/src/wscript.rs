//! E1 worldsim: scripted lazy closures. A closure is data (`Vec<SOp>`); when specs runs it inside
//! `maintain` it performs its operations against the real world and logs what it observed. The
//! model replays the same script afterwards and compares.

use crate::comps::{SlotOps, V};
use crate::wcase::{SOp, H};
use crate::wmodel::nested_cid;
use specs::prelude::*;
use std::collections::HashMap;
use std::sync::{Arc, Mutex};

#[derive(Clone, Debug, PartialEq, Eq)]
pub enum Obs {
    Skipped,
    /// (Entities::is_alive, World::is_alive)
    Alive(Vec<Option<(bool, bool)>>),
    Comp(Vec<Option<Option<V>>>),
    Join(Vec<Entity>),
    Created(Entity, Vec<u64>),
    DeletedNow(bool),
    CreatedDeferred(Entity),
    DeletedDeferred(bool),
    Inserted(u64, Result<Option<V>, ()>),
    Removed(Option<V>),
    Queued(u32),
}

#[derive(Clone, Debug)]
pub struct LogEntry {
    pub cid: u32,
    pub obs: Vec<Obs>,
}

pub type Handles = Arc<Mutex<HashMap<H, Entity>>>;
pub type ExecLog = Arc<Mutex<Vec<LogEntry>>>;

#[derive(Clone)]
pub struct Ctx {
    pub handles: Handles,
    pub log: ExecLog,
    pub slots: Arc<Vec<Box<dyn SlotOps>>>,
}

impl Ctx {
    pub fn resolve(&self, h: H) -> Option<Entity> {
        self.handles.lock().unwrap().get(&h).copied()
    }
    pub fn bind(&self, h: H, e: Entity) {
        self.handles.lock().unwrap().insert(h, e);
    }
}

pub fn make_closure(
    cid: u32,
    script: Vec<SOp>,
    ctx: Ctx,
) -> impl FnOnce(&mut World) + Send + Sync + 'static {
    move |world: &mut World| run_script(world, cid, &script, &ctx)
}

pub fn run_script(world: &mut World, cid: u32, script: &[SOp], ctx: &Ctx) {
    let mut obs = vec![];
    let mut created: u16 = 0;
    for (j, op) in script.iter().enumerate() {
        let o = match op {
            SOp::ObserveAlive(hs) => Obs::Alive(
                hs.iter()
                    .map(|&h| {
                        ctx.resolve(h).map(|e| {
                            let a = world.entities().is_alive(e);
                            let b = world.is_alive(e);
                            (a, b)
                        })
                    })
                    .collect(),
            ),
            SOp::ObserveComp(slot, hs) => Obs::Comp(
                hs.iter()
                    .map(|&h| {
                        ctx.resolve(h)
                            .map(|e| ctx.slots[*slot as usize].get(world, e))
                    })
                    .collect(),
            ),
            SOp::ObserveJoin => {
                let ents = world.entities();
                let v: Vec<Entity> = (&ents).join().collect();
                Obs::Join(v)
            }
            SOp::CreateNow(comps) => {
                let mut b = world.create_entity();
                let mut ids = vec![];
                for &(s, p) in comps {
                    let (nb, id) = ctx.slots[s as usize].with_now(b, p);
                    b = nb;
                    ids.push(id);
                }
                let e = b.build();
                ctx.bind(H(cid, created), e);
                created += 1;
                Obs::Created(e, ids)
            }
            SOp::DeleteNow(h) => match ctx.resolve(*h) {
                Some(e) => Obs::DeletedNow(world.delete_entity(e).is_ok()),
                None => Obs::Skipped,
            },
            SOp::CreateDeferred => {
                let e = world.entities().create();
                ctx.bind(H(cid, created), e);
                created += 1;
                Obs::CreatedDeferred(e)
            }
            SOp::DeleteDeferred(h) => match ctx.resolve(*h) {
                Some(e) => Obs::DeletedDeferred(world.entities().delete(e).is_ok()),
                None => Obs::Skipped,
            },
            SOp::Insert(slot, h, p) => match ctx.resolve(*h) {
                Some(e) => {
                    let (id, r) = ctx.slots[*slot as usize].insert(world, e, *p);
                    Obs::Inserted(id, r.map_err(|_| ()))
                }
                None => Obs::Skipped,
            },
            SOp::Remove(slot, h) => match ctx.resolve(*h) {
                Some(e) => Obs::Removed(ctx.slots[*slot as usize].remove(world, e)),
                None => Obs::Skipped,
            },
            SOp::Queue(inner) => {
                let ncid = nested_cid(cid, j);
                let lazy = world.read_resource::<LazyUpdate>();
                lazy.exec(make_closure(ncid, inner.clone(), ctx.clone()));
                Obs::Queued(ncid)
            }
        };
        obs.push(o);
    }
    ctx.log.lock().unwrap().push(LogEntry { cid, obs });
}
