//! E3 dispatchsim: system graphs under a simulated executor (C11).
//!
//! Systems carry a runtime-composed `DynamicSystemData` whose accessor concatenates the *real*
//! `reads()` / `writes()` of `ReadStorage<T>` / `WriteStorage<T>` / `Entities` / `Read<LazyUpdate>` and
//! whose `fetch` calls the real `SystemData::fetch` of each member. Three checks:
//! (1) declaration = borrow, (2) execution of shred's own stage plan (read from the
//! `DispatcherBuilder`'s `Debug` output) on the baton executor, (3) adversarial execution: the most
//! parallel dispatcher the declarations allow.

use crate::baton::{run_tasks, BatonCfg, Policy, Recorded, TaskBody, TaskCtx};
use crate::comps::{CDense, CNull, CVec, FBTree, TComp};
use crate::engine::{ddmin, Engine, Report, Viol};
use crate::rng::{mix, Rng, TraceHash};
use serde::{Deserialize, Serialize};
use shred::{Accessor, AccessorCow, DynamicSystemData, ResourceId, RunNow, System};
use specs::prelude::*;
use specs::storage::MaskedStorage;
use specs::world::EntitiesRes;
use std::cell::RefCell;
use std::collections::{BTreeMap, BTreeSet};
use std::panic::{catch_unwind, AssertUnwindSafe};
use std::sync::{Arc, Mutex};

type T0 = CVec;
type T1 = CDense;
type T2 = CNull;
type T3 = FBTree;

#[derive(Clone, Copy, Debug, PartialEq, Eq, Serialize, Deserialize, PartialOrd, Ord)]
pub enum Member {
    Read(u8),
    Write(u8),
    Entities,
    Lazy,
}

#[derive(Clone, Debug, Serialize, Deserialize)]
pub struct SysSpec {
    pub members: Vec<Member>,
    /// indices of earlier systems this one depends on
    pub deps: Vec<usize>,
    /// yield-separated steps of the body
    pub steps: u8,
    /// a barrier is added before this system
    pub barrier_before: bool,
}

#[derive(Clone, Copy, Debug, PartialEq, Eq, Serialize, Deserialize)]
pub enum DMode {
    Planned,
    Adversarial,
}

#[derive(Clone, Debug, Serialize, Deserialize)]
pub struct DCase {
    pub seed: u64,
    pub systems: Vec<SysSpec>,
    pub mode: DMode,
    pub baton: BatonCfg,
    /// explicit decisions, one per stage / wave
    #[serde(default, skip_serializing_if = "Option::is_none")]
    pub recorded: Option<Vec<Recorded>>,
}

// ------------------------------------------------------------------------------------------------
// runtime-composed system data

pub struct DynAccessor {
    members: Vec<Member>,
}

fn member_reads(m: Member) -> Vec<ResourceId> {
    match m {
        Member::Read(0) => <ReadStorage<T0> as SystemData>::reads(),
        Member::Read(1) => <ReadStorage<T1> as SystemData>::reads(),
        Member::Read(2) => <ReadStorage<T2> as SystemData>::reads(),
        Member::Read(_) => <ReadStorage<T3> as SystemData>::reads(),
        Member::Write(0) => <WriteStorage<T0> as SystemData>::reads(),
        Member::Write(1) => <WriteStorage<T1> as SystemData>::reads(),
        Member::Write(2) => <WriteStorage<T2> as SystemData>::reads(),
        Member::Write(_) => <WriteStorage<T3> as SystemData>::reads(),
        Member::Entities => <Entities as SystemData>::reads(),
        Member::Lazy => <Read<LazyUpdate> as SystemData>::reads(),
    }
}

fn member_writes(m: Member) -> Vec<ResourceId> {
    match m {
        Member::Read(0) => <ReadStorage<T0> as SystemData>::writes(),
        Member::Read(1) => <ReadStorage<T1> as SystemData>::writes(),
        Member::Read(2) => <ReadStorage<T2> as SystemData>::writes(),
        Member::Read(_) => <ReadStorage<T3> as SystemData>::writes(),
        Member::Write(0) => <WriteStorage<T0> as SystemData>::writes(),
        Member::Write(1) => <WriteStorage<T1> as SystemData>::writes(),
        Member::Write(2) => <WriteStorage<T2> as SystemData>::writes(),
        Member::Write(_) => <WriteStorage<T3> as SystemData>::writes(),
        Member::Entities => <Entities as SystemData>::writes(),
        Member::Lazy => <Read<LazyUpdate> as SystemData>::writes(),
    }
}

impl Accessor for DynAccessor {
    fn try_new() -> Option<Self> {
        None
    }
    fn reads(&self) -> Vec<ResourceId> {
        let mut v = vec![];
        for m in &self.members {
            for r in member_reads(*m) {
                if !v.contains(&r) {
                    v.push(r);
                }
            }
        }
        // shred requires reads and writes to be disjoint: a resource that is written is not
        // listed as read as well
        let w = self.writes();
        v.retain(|r| !w.contains(r));
        v
    }
    fn writes(&self) -> Vec<ResourceId> {
        let mut v = vec![];
        for m in &self.members {
            for r in member_writes(*m) {
                if !v.contains(&r) {
                    v.push(r);
                }
            }
        }
        v
    }
}

pub enum Fetched<'a> {
    R0(ReadStorage<'a, T0>),
    R1(ReadStorage<'a, T1>),
    R2(ReadStorage<'a, T2>),
    R3(ReadStorage<'a, T3>),
    W0(WriteStorage<'a, T0>),
    W1(WriteStorage<'a, T1>),
    W2(WriteStorage<'a, T2>),
    W3(WriteStorage<'a, T3>),
    Ents(Entities<'a>),
    Lazy(Read<'a, LazyUpdate>),
}

pub struct DynData<'a> {
    items: Vec<Fetched<'a>>,
}

fn fetch_member<'a>(m: Member, w: &'a World) -> Fetched<'a> {
    match m {
        Member::Read(0) => Fetched::R0(SystemData::fetch(w)),
        Member::Read(1) => Fetched::R1(SystemData::fetch(w)),
        Member::Read(2) => Fetched::R2(SystemData::fetch(w)),
        Member::Read(_) => Fetched::R3(SystemData::fetch(w)),
        Member::Write(0) => Fetched::W0(SystemData::fetch(w)),
        Member::Write(1) => Fetched::W1(SystemData::fetch(w)),
        Member::Write(2) => Fetched::W2(SystemData::fetch(w)),
        Member::Write(_) => Fetched::W3(SystemData::fetch(w)),
        Member::Entities => Fetched::Ents(SystemData::fetch(w)),
        Member::Lazy => Fetched::Lazy(SystemData::fetch(w)),
    }
}

fn setup_member(m: Member, w: &mut World) {
    match m {
        Member::Read(0) => <ReadStorage<T0> as SystemData>::setup(w),
        Member::Read(1) => <ReadStorage<T1> as SystemData>::setup(w),
        Member::Read(2) => <ReadStorage<T2> as SystemData>::setup(w),
        Member::Read(_) => <ReadStorage<T3> as SystemData>::setup(w),
        Member::Write(0) => <WriteStorage<T0> as SystemData>::setup(w),
        Member::Write(1) => <WriteStorage<T1> as SystemData>::setup(w),
        Member::Write(2) => <WriteStorage<T2> as SystemData>::setup(w),
        Member::Write(_) => <WriteStorage<T3> as SystemData>::setup(w),
        Member::Entities => <Entities as SystemData>::setup(w),
        Member::Lazy => <Read<LazyUpdate> as SystemData>::setup(w),
    }
}

impl<'a> DynamicSystemData<'a> for DynData<'a> {
    type Accessor = DynAccessor;
    fn setup(acc: &DynAccessor, world: &mut World) {
        for m in &acc.members {
            setup_member(*m, world);
        }
    }
    fn fetch(acc: &DynAccessor, world: &'a World) -> Self {
        DynData {
            items: acc.members.iter().map(|m| fetch_member(*m, world)).collect(),
        }
    }
}

// ------------------------------------------------------------------------------------------------
// the monitor: per-storage reader/writer counters, per-system enter/exit records

#[derive(Default)]
pub struct Monitor {
    readers: [i32; 4],
    writers: [i32; 4],
    runs: Vec<u32>,
    running: BTreeSet<usize>,
    finished: BTreeSet<usize>,
    order: Vec<(usize, bool)>,
    violation: Option<(String, String)>,
    overlaps: u64,
    max_parallel: usize,
}

thread_local! {
    static CUR_TASK: RefCell<Option<TaskCtx>> = const { RefCell::new(None) };
}

fn pause(site: &'static str) {
    let t = CUR_TASK.with(|c| c.borrow().clone());
    if let Some(t) = t {
        t.yield_now(site);
    }
}

pub struct DynSys {
    idx: usize,
    acc: DynAccessor,
    deps: Vec<usize>,
    steps: u8,
    mon: Arc<Mutex<Monitor>>,
    /// false for the copies handed to the real dispatcher's sequential sanity run
    check_deps: bool,
}

impl<'a> System<'a> for DynSys {
    type SystemData = DynData<'a>;

    fn accessor<'b>(&'b self) -> AccessorCow<'a, 'b, Self> {
        AccessorCow::Ref(&self.acc)
    }

    fn run(&mut self, mut data: DynData<'a>) {
        {
            let mut m = self.mon.lock().unwrap();
            m.runs[self.idx] += 1;
            m.order.push((self.idx, true));
            if self.check_deps {
                for d in &self.deps {
                    if !m.finished.contains(d) && m.violation.is_none() {
                        m.violation = Some((
                            "dependency-order".into(),
                            format!("system s{} started before its dependency s{} had finished", self.idx, d),
                        ));
                    }
                }
            }
            if !m.running.is_empty() {
                m.overlaps += 1;
            }
            m.running.insert(self.idx);
            m.max_parallel = m.max_parallel.max(m.running.len());
            for mem in &self.acc.members {
                match mem {
                    Member::Read(t) => m.readers[*t as usize & 3] += 1,
                    Member::Write(t) => m.writers[*t as usize & 3] += 1,
                    _ => {}
                }
            }
            for t in 0..4 {
                if m.violation.is_none() && (m.writers[t] > 1 || (m.writers[t] == 1 && m.readers[t] > 0)) {
                    m.violation = Some((
                        "writer-overlap".into(),
                        format!(
                            "storage T{} has {} writer(s) and {} reader(s) at the same time (system s{} just started; running: {:?})",
                            t, m.writers[t], m.readers[t], self.idx, m.running
                        ),
                    ));
                }
            }
        }
        for step in 0..self.steps.max(1) {
            pause("h.system_step");
            for it in data.items.iter_mut() {
                match it {
                    Fetched::R0(s) => {
                        let _ = s.count();
                    }
                    Fetched::R1(s) => {
                        let _ = s.count();
                    }
                    Fetched::R2(s) => {
                        let _ = s.count();
                    }
                    Fetched::R3(s) => {
                        let _ = s.count();
                    }
                    Fetched::W0(s) => touch(s, self.idx, step),
                    Fetched::W1(s) => touch(s, self.idx, step),
                    Fetched::W2(s) => touch(s, self.idx, step),
                    Fetched::W3(s) => touch(s, self.idx, step),
                    Fetched::Ents(e) => {
                        if step == 0 {
                            let _ = e.create();
                        }
                    }
                    Fetched::Lazy(l) => {
                        if step == 0 {
                            l.exec(|_w| {});
                        }
                    }
                }
            }
        }
        pause("h.system_end");
        let mut m = self.mon.lock().unwrap();
        for mem in &self.acc.members {
            match mem {
                Member::Read(t) => m.readers[*t as usize & 3] -= 1,
                Member::Write(t) => m.writers[*t as usize & 3] -= 1,
                _ => {}
            }
        }
        m.running.remove(&self.idx);
        m.finished.insert(self.idx);
        m.order.push((self.idx, false));
    }
}

fn touch<C: TComp>(s: &mut WriteStorage<C>, sys: usize, step: u8)
where
    C::Storage: Default,
{
    // write to the first entity: a real mutation through the fetched storage
    let e = s.fetched_entities().entity(0);
    if s.fetched_entities().is_alive(e) {
        let (c, _) = C::make(sys as i64 * 100 + step as i64);
        if let Ok(Some(old)) = s.insert(e, c) {
            old.consume();
        }
    }
}

fn make_sys(i: usize, sp: &SysSpec, mon: &Arc<Mutex<Monitor>>, check_deps: bool) -> DynSys {
    DynSys {
        idx: i,
        acc: DynAccessor {
            members: sp.members.clone(),
        },
        deps: sp.deps.clone(),
        steps: sp.steps,
        mon: mon.clone(),
        check_deps,
    }
}

// ------------------------------------------------------------------------------------------------

#[derive(Default, Clone, Debug)]
pub struct DStats {
    pub stages: u64,
    pub groups: u64,
    pub waves: u64,
    pub overlaps: u64,
    pub max_parallel: u64,
    pub steps: u64,
    pub switches: u64,
    pub borrow_probes: u64,
    pub sched_hash: u64,
}

pub struct DOut {
    pub violation: Option<Viol>,
    pub stats: DStats,
    pub recorded: Vec<Recorded>,
    pub trace: u64,
}

fn viol(oracle: &str, detail: String) -> Viol {
    Viol {
        props: vec!["C11".into()],
        oracle: oracle.into(),
        detail,
    }
}

fn new_world() -> World {
    crate::ledger::reset();
    let mut w = World::new();
    w.register::<T0>();
    w.register::<T1>();
    w.register::<T2>();
    w.register::<T3>();
    for _ in 0..3 {
        w.create_entity().build();
    }
    w
}

/// what is actually borrowed: 0 free, 1 shared, 2 exclusive
fn borrow_state<R: shred::Resource>(w: &World) -> u8 {
    let free = catch_unwind(AssertUnwindSafe(|| w.try_fetch_mut::<R>().is_some())).unwrap_or(false);
    if free {
        return 0;
    }
    let shared = catch_unwind(AssertUnwindSafe(|| w.try_fetch::<R>().is_some())).unwrap_or(false);
    if shared {
        1
    } else {
        2
    }
}

type Meta = shred::MetaTable<dyn specs::storage::AnyStorage>;

/// Holds every probed resource that `m` does not declare exclusively (and the declared reads
/// shared), then fetches `m`: a handle that touches anything undeclared - even briefly - conflicts.
fn fetch_while_rest_is_taken(m: Member, w: &World) -> Result<(), String> {
    let reads = member_reads(m);
    let writes = member_writes(m);
    macro_rules! hold {
        ($t:ty) => {{
            let id = ResourceId::new::<$t>();
            if writes.contains(&id) {
                (None, None)
            } else if reads.contains(&id) {
                (Some(w.fetch::<$t>()), None)
            } else {
                (None, Some(w.fetch_mut::<$t>()))
            }
        }};
    }
    let _g0 = hold!(EntitiesRes);
    let _g1 = hold!(LazyUpdate);
    let _g2 = hold!(MaskedStorage<T0>);
    let _g3 = hold!(MaskedStorage<T1>);
    let _g4 = hold!(MaskedStorage<T2>);
    let _g5 = hold!(MaskedStorage<T3>);
    let _g6 = hold!(Meta);
    match catch_unwind(AssertUnwindSafe(|| {
        let f = fetch_member(m, w);
        drop(f);
    })) {
        Ok(()) => Ok(()),
        Err(e) => Err(crate::util::panic_message(&e)),
    }
}

fn all_states(w: &World) -> Vec<(ResourceId, &'static str, u8)> {
    vec![
        (ResourceId::new::<Meta>(), "the storage meta table", borrow_state::<Meta>(w)),
        (ResourceId::new::<EntitiesRes>(), "EntitiesRes", borrow_state::<EntitiesRes>(w)),
        (ResourceId::new::<LazyUpdate>(), "LazyUpdate", borrow_state::<LazyUpdate>(w)),
        (ResourceId::new::<MaskedStorage<T0>>(), "storage T0", borrow_state::<MaskedStorage<T0>>(w)),
        (ResourceId::new::<MaskedStorage<T1>>(), "storage T1", borrow_state::<MaskedStorage<T1>>(w)),
        (ResourceId::new::<MaskedStorage<T2>>(), "storage T2", borrow_state::<MaskedStorage<T2>>(w)),
        (ResourceId::new::<MaskedStorage<T3>>(), "storage T3", borrow_state::<MaskedStorage<T3>>(w)),
    ]
}

/// Check 1: what a handle borrows from the world is exactly what it declares.
fn check_declarations(members: &[Member], stats: &mut DStats) -> Option<Viol> {
    let w = new_world();
    for &m in members {
        let reads = member_reads(m);
        let writes = member_writes(m);
        let f = match catch_unwind(AssertUnwindSafe(|| fetch_member(m, &w))) {
            Ok(f) => f,
            Err(e) => {
                return Some(viol(
                    "borrow-conflict",
                    format!("fetching {:?} alone panicked: {}", m, crate::util::panic_message(&e)),
                ))
            }
        };
        for (id, name, st) in all_states(&w) {
            stats.borrow_probes += 1;
            let declared = if writes.contains(&id) {
                2
            } else if reads.contains(&id) {
                1
            } else {
                0
            };
            if st != declared {
                let word = |x: u8| ["nothing", "a shared borrow", "an exclusive borrow"][x as usize];
                return Some(viol(
                    "declaration-vs-borrow",
                    format!(
                        "{:?}: after fetch() the world shows {} of {}, but reads()/writes() declare {}",
                        m,
                        word(st),
                        name,
                        word(declared)
                    ),
                ));
            }
        }
        drop(f);
        stats.borrow_probes += 1;
        if let Err(msg) = fetch_while_rest_is_taken(m, &w) {
            return Some(viol(
                "declaration-vs-borrow",
                format!(
                    "{:?}: fetch() conflicts although every resource it does not declare is merely held by someone else (it touches an undeclared resource): {}",
                    m, msg
                ),
            ));
        }
    }
    // the same for a world whose storages were only made known by SystemData::setup
    let mut w2 = World::new();
    for &m in members {
        setup_member(m, &mut w2);
    }
    for &m in members {
        stats.borrow_probes += 1;
        if let Err(msg) = fetch_while_rest_is_taken_setup_only(m, &w2) {
            return Some(viol(
                "declaration-vs-borrow",
                format!(
                    "{:?} in a world prepared by SystemData::setup only: fetch() conflicts although every resource it does not declare is merely held by someone else: {}",
                    m, msg
                ),
            ));
        }
    }
    None
}

/// as `fetch_while_rest_is_taken`, but only resources that exist in this world are held
fn fetch_while_rest_is_taken_setup_only(m: Member, w: &World) -> Result<(), String> {
    let reads = member_reads(m);
    let writes = member_writes(m);
    macro_rules! hold {
        ($t:ty) => {{
            let id = ResourceId::new::<$t>();
            if writes.contains(&id) || !w.has_value::<$t>() {
                (None, None)
            } else if reads.contains(&id) {
                (Some(w.fetch::<$t>()), None)
            } else {
                (None, Some(w.fetch_mut::<$t>()))
            }
        }};
    }
    let _g0 = hold!(EntitiesRes);
    let _g1 = hold!(LazyUpdate);
    let _g2 = hold!(MaskedStorage<T0>);
    let _g3 = hold!(MaskedStorage<T1>);
    let _g4 = hold!(MaskedStorage<T2>);
    let _g5 = hold!(MaskedStorage<T3>);
    let _g6 = hold!(Meta);
    match catch_unwind(AssertUnwindSafe(|| {
        let f = fetch_member(m, w);
        drop(f);
    })) {
        Ok(()) => Ok(()),
        Err(e) => Err(crate::util::panic_message(&e)),
    }
}

fn parse_plan(txt: &str) -> Vec<Vec<Vec<usize>>> {
    let mut stages: Vec<Vec<Vec<usize>>> = vec![];
    for line in txt.lines() {
        let l = line.trim();
        if l.starts_with("par![") {
            stages.push(vec![]);
        } else if l.starts_with("seq![") && !stages.is_empty() {
            stages.last_mut().unwrap().push(vec![]);
        } else if let Some(n) = l.strip_prefix('s') {
            if let Ok(i) = n.trim_end_matches(',').parse::<usize>() {
                if let Some(st) = stages.last_mut() {
                    if let Some(g) = st.last_mut() {
                        g.push(i);
                    }
                }
            }
        }
    }
    stages
}

fn conflicts(a: &SysSpec, b: &SysSpec) -> bool {
    let acc = |s: &SysSpec| DynAccessor {
        members: s.members.clone(),
    };
    let (ra, wa) = (acc(a).reads(), acc(a).writes());
    let (rb, wb) = (acc(b).reads(), acc(b).writes());
    wa.iter().any(|x| wb.contains(x) || rb.contains(x)) || wb.iter().any(|x| ra.contains(x))
}

pub fn run_case(c: &DCase) -> DOut {
    crate::util::probe_mark(&["C11"]);
    let mut stats = DStats::default();
    let mut th = TraceHash::default();
    let mut recorded_out = vec![];
    let fin = |v: Option<Viol>, stats: DStats, rec: Vec<Recorded>, th: TraceHash| DOut {
        violation: v,
        stats,
        recorded: rec,
        trace: th.0,
    };
    // check 1
    let mut all_members: Vec<Member> = c.systems.iter().flat_map(|s| s.members.clone()).collect();
    all_members.sort();
    all_members.dedup();
    // DST_SKIP_DECL is a development aid (sensitivity of checks 2 and 3 alone); never set by ./check
    let skip_decl = std::env::var_os("DST_SKIP_DECL").is_some();
    if let Some(v) = check_declarations(&all_members, &mut stats).filter(|_| !skip_decl) {
        return fin(Some(v), stats, recorded_out, th);
    }
    let n = c.systems.len();
    let mon = Arc::new(Mutex::new(Monitor {
        runs: vec![0; n],
        ..Default::default()
    }));
    let mut world = new_world();
    // the real planner: accepts the systems, prints its stage plan; sequential sanity run
    let plan_txt = {
        let seq_mon = Arc::new(Mutex::new(Monitor {
            runs: vec![0; n],
            ..Default::default()
        }));
        let mut b = DispatcherBuilder::new();
        let names: Vec<String> = (0..n).map(|i| format!("s{}", i)).collect();
        let r = catch_unwind(AssertUnwindSafe(|| {
            for (i, sp) in c.systems.iter().enumerate() {
                if sp.barrier_before {
                    b.add_barrier();
                }
                let deps: Vec<&str> = sp.deps.iter().map(|d| names[*d].as_str()).collect();
                b.add(make_sys(i, sp, &seq_mon, false), &names[i], &deps);
            }
            let txt = format!("{:?}", b);
            let mut d = b.build();
            d.setup(&mut world);
            d.dispatch_seq(&world);
            txt
        }));
        match r {
            Ok(t) => {
                let m = seq_mon.lock().unwrap();
                if let Some(i) = m.runs.iter().position(|r| *r != 1) {
                    return fin(
                        Some(viol("runs-exactly-once", format!("dispatch_seq ran system s{} {} times", i, m.runs[i]))),
                        stats,
                        recorded_out,
                        th,
                    );
                }
                t
            }
            Err(e) => {
                return fin(
                    Some(viol(
                        "borrow-conflict",
                        format!("building / sequentially dispatching the program panicked: {}", crate::util::panic_message(&e)),
                    )),
                    stats,
                    recorded_out,
                    th,
                )
            }
        }
    };
    world.maintain();
    let mut systems: Vec<Option<DynSys>> = c
        .systems
        .iter()
        .enumerate()
        .map(|(i, sp)| Some(make_sys(i, sp, &mon, true)))
        .collect();
    // schedule units: stages of groups (planned) or waves of single systems (adversarial)
    let mut rng = Rng::new(mix(&[c.seed, 0xAD7E]));
    let mut phase_no = 0usize;
    let mut done: BTreeSet<usize> = BTreeSet::new();
    let plan = parse_plan(&plan_txt);
    let mut stage_iter = plan.into_iter();
    loop {
        let units: Vec<Vec<usize>> = match c.mode {
            DMode::Planned => match stage_iter.next() {
                Some(st) => {
                    stats.stages += 1;
                    stats.groups += st.len() as u64;
                    st
                }
                None => break,
            },
            DMode::Adversarial => {
                if done.len() == n {
                    break;
                }
                // a maximal seeded set of admissible, pairwise non-conflicting systems; barriers
                // order everything before them ahead of everything after them
                let mut cand: Vec<usize> = (0..n)
                    .filter(|i| !done.contains(i))
                    .filter(|&i| c.systems[i].deps.iter().all(|d| done.contains(d)))
                    .filter(|&i| {
                        let last_barrier = (0..=i).rev().find(|&j| c.systems[j].barrier_before);
                        match last_barrier {
                            Some(b) => (0..b).all(|j| done.contains(&j)),
                            None => true,
                        }
                    })
                    .collect();
                // nothing after an unfinished barrier segment
                let first_open_barrier = (0..n).find(|&j| c.systems[j].barrier_before && (0..j).any(|k| !done.contains(&k)));
                if let Some(b) = first_open_barrier {
                    cand.retain(|&i| i < b);
                }
                rng.shuffle(&mut cand);
                let mut wave: Vec<usize> = vec![];
                for i in cand {
                    if wave.iter().all(|&j| !conflicts(&c.systems[i], &c.systems[j])) {
                        wave.push(i);
                    }
                }
                if wave.is_empty() {
                    return fin(
                        Some(viol("harness", "adversarial executor found no admissible system".into())),
                        stats,
                        recorded_out,
                        th,
                    );
                }
                stats.waves += 1;
                wave.into_iter().map(|i| vec![i]).collect()
            }
        };
        if units.is_empty() {
            continue;
        }
        // take the systems of this phase out of the table
        let mut groups: Vec<Vec<DynSys>> = vec![];
        for g in &units {
            let mut v = vec![];
            for &i in g {
                if let Some(s) = systems.get_mut(i).and_then(|s| s.take()) {
                    v.push(s);
                }
            }
            groups.push(v);
        }
        let world_ref = &world;
        let bodies: Vec<TaskBody> = groups
            .into_iter()
            .map(|mut g| {
                let b: TaskBody = Box::new(move |t: &TaskCtx| {
                    CUR_TASK.with(|c| *c.borrow_mut() = Some(t.clone()));
                    for s in g.iter_mut() {
                        t.yield_now("h.system_start");
                        s.run_now(world_ref);
                    }
                    CUR_TASK.with(|c| *c.borrow_mut() = None);
                });
                b
            })
            .collect();
        let mut cfg = c.baton.clone();
        cfg.seed = mix(&[c.baton.seed, phase_no as u64]);
        let rec_in = c.recorded.as_ref().and_then(|r| r.get(phase_no).cloned());
        let res = run_tasks(&cfg, rec_in, bodies);
        phase_no += 1;
        stats.steps += res.stats.steps;
        stats.switches += res.stats.switches;
        th.add(res.stats.sched_hash);
        stats.sched_hash ^= res.stats.sched_hash.rotate_left(phase_no as u32 % 63);
        recorded_out.push(res.recorded);
        for g in &units {
            for &i in g {
                done.insert(i);
            }
        }
        if let Some((task, msg)) = res.panics.first() {
            return fin(
                Some(viol(
                    "borrow-conflict",
                    format!(
                        "a system panicked during parallel execution (task {} of phase {}): {} (at {})",
                        task,
                        phase_no,
                        msg,
                        crate::util::last_panic_location()
                    ),
                )),
                stats,
                recorded_out,
                th,
            );
        }
        let m = mon.lock().unwrap();
        if let Some((o, d)) = &m.violation {
            return fin(Some(viol(o, d.clone())), stats, recorded_out, th);
        }
    }
    let m = mon.lock().unwrap();
    stats.overlaps = m.overlaps;
    stats.max_parallel = m.max_parallel as u64;
    if let Some(i) = m.runs.iter().position(|r| *r != 1) {
        return fin(
            Some(viol(
                "runs-exactly-once",
                format!("system s{} ran {} times in the {:?} execution (plan: {})", i, m.runs[i], c.mode, plan_txt.replace('\n', " ").replace('\t', "")),
            )),
            stats,
            recorded_out,
            th,
        );
    }
    for (i, sp) in c.systems.iter().enumerate() {
        let start = m.order.iter().position(|x| *x == (i, true));
        for d in &sp.deps {
            let end = m.order.iter().position(|x| *x == (*d, false));
            if !(end.is_some() && start.is_some() && end < start) {
                return fin(
                    Some(viol("dependency-order", format!("system s{} did not start after its dependency s{} finished", i, d))),
                    stats,
                    recorded_out,
                    th,
                );
            }
        }
    }
    th.add(m.order.len() as u64);
    drop(m);
    fin(None, stats, recorded_out, th)
}

pub fn gen_case(seed: u64) -> DCase {
    let mut r = Rng::new(mix(&[seed, 0xD15B]));
    let n = r.range(2, 8) as usize;
    let mut systems = vec![];
    for i in 0..n {
        let mut members = vec![];
        for t in 0..4u8 {
            match r.below(5) {
                0 | 1 => {}
                2 | 3 => members.push(Member::Read(t)),
                _ => members.push(Member::Write(t)),
            }
        }
        if r.chance(1, 3) {
            members.push(Member::Entities);
        }
        if r.chance(1, 4) {
            members.push(Member::Lazy);
        }
        r.shuffle(&mut members);
        let mut deps = vec![];
        if i > 0 {
            for _ in 0..r.below(3) {
                let d = r.usize_below(i);
                if !deps.contains(&d) {
                    deps.push(d);
                }
            }
        }
        systems.push(SysSpec {
            members,
            deps,
            steps: r.range(1, 3) as u8,
            barrier_before: i > 0 && r.chance(1, 8),
        });
    }
    DCase {
        seed,
        systems,
        mode: if r.chance(1, 2) { DMode::Planned } else { DMode::Adversarial },
        baton: BatonCfg {
            policy: match r.below(6) {
                0 | 1 => Policy::Uniform,
                2 => Policy::Sticky { stay_pct: 50 },
                3 | 4 => Policy::Pct { d: r.range(1, 3) as u8 },
                _ => Policy::RoundRobin,
            },
            seed: r.next_u64(),
            est_len: 40,
            max_steps: 5000,
            buggify: vec![],
        },
        recorded: None,
    }
}

pub struct DispatchSim;

fn report(c: &DCase, o: DOut, want: bool) -> Report {
    let mut counters = BTreeMap::new();
    let mut put = |k: &str, v: u64| {
        if v > 0 {
            counters.insert(k.to_string(), v);
        }
    };
    put("programs", 1);
    put("systems", c.systems.len() as u64);
    put("stages", o.stats.stages);
    put("groups", o.stats.groups);
    put("adversarial_waves", o.stats.waves);
    put("system_starts_overlapping_another_system", o.stats.overlaps);
    put("scheduler_steps", o.stats.steps);
    put("scheduler_switches", o.stats.switches);
    put("borrow_state_probes", o.stats.borrow_probes);
    put(if c.mode == DMode::Planned { "mode.planned" } else { "mode.adversarial" }, 1);
    if o.stats.max_parallel >= 2 {
        put("probe.two_or_more_systems_in_flight", 1);
    }
    if o.stats.max_parallel >= 3 {
        put("probe.three_or_more_systems_in_flight", 1);
    }
    let nt = if o.stats.overlaps >= 1 { Some(o.trace ^ c.seed) } else { None };
    let failed = o.violation.is_some();
    let mut cc = c.clone();
    if cc.recorded.is_none() {
        cc.recorded = Some(o.recorded.clone());
    }
    let mut sets = BTreeMap::new();
    sets.insert("interleavings".to_string(), vec![o.stats.sched_hash]);
    Report {
        violation: o.violation,
        case: if failed || want { Some(serde_json::to_value(&cc).unwrap()) } else { None },
        trace_hash: o.trace,
        counters,
        sets,
        nontrivial: nt,
        executions: 1,
    }
}

fn fails(c: &DCase, oracle: &str) -> bool {
    matches!(run_case(c).violation, Some(v) if v.oracle == oracle)
}

fn shrink(mut c: DCase, oracle: &str) -> DCase {
    c.recorded = None;
    if !fails(&c, oracle) {
        return c;
    }
    // drop systems (re-index dependencies)
    let idxs: Vec<usize> = (0..c.systems.len()).collect();
    let base = c.clone();
    let build = |keep: &[usize]| -> DCase {
        let mut n = base.clone();
        n.systems = keep
            .iter()
            .map(|&i| {
                let mut s = base.systems[i].clone();
                s.deps = s
                    .deps
                    .iter()
                    .filter_map(|d| keep.iter().position(|k| k == d))
                    .collect();
                s
            })
            .collect();
        n
    };
    let kept = ddmin(idxs, |cand| !cand.is_empty() && fails(&build(cand), oracle));
    c = build(&kept);
    // drop members, deps, barriers, steps
    for i in 0..c.systems.len() {
        let mut j = 0;
        while j < c.systems[i].members.len() {
            let mut cand = c.clone();
            cand.systems[i].members.remove(j);
            if fails(&cand, oracle) {
                c = cand;
            } else {
                j += 1;
            }
        }
        let mut cand = c.clone();
        cand.systems[i].deps.clear();
        cand.systems[i].barrier_before = false;
        cand.systems[i].steps = 1;
        if fails(&cand, oracle) {
            c = cand;
        }
    }
    let o = run_case(&c);
    c.recorded = Some(o.recorded);
    c
}

impl Engine for DispatchSim {
    fn name(&self) -> &'static str {
        "dispatchsim"
    }
    fn run_seed(&self, _profile: &str, seed: u64, _prop: &str, want_case: bool) -> Report {
        let c = gen_case(seed);
        let o = run_case(&c);
        report(&c, o, want_case)
    }
    fn replay(&self, case: &serde_json::Value, _prop: &str) -> Report {
        let c: DCase = match serde_json::from_value(case.clone()) {
            Ok(c) => c,
            Err(e) => {
                return Report {
                    violation: Some(Viol {
                        props: vec![],
                        oracle: "harness".into(),
                        detail: format!("cannot parse case: {}", e),
                    }),
                    ..Default::default()
                }
            }
        };
        let o = run_case(&c);
        report(&c, o, true)
    }
    fn shrink(&self, case: serde_json::Value, _prop: &str, oracle: &str) -> serde_json::Value {
        let c: DCase = serde_json::from_value(case).unwrap();
        serde_json::to_value(shrink(c, oracle)).unwrap()
    }
    fn rule(&self, _profile: &str, _prop: &str) -> String {
        "a case is one generated system graph (2-8 systems; per system and component type none/read/write over 4 types, Entities and Read<LazyUpdate> members, 0-2 dependency edges each, barriers) executed once: either shred's own stage plan (groups of a stage as baton tasks) or the adversarial executor (maximal non-conflicting admissible waves), under a seeded baton schedule; non-trivial: at least one system started while another was in flight; distinct: hash of (program seed, schedule, enter/exit order)".into()
    }
    fn components(&self) -> serde_json::Value {
        serde_json::json!({
            "real": ["specs SystemData impls of ReadStorage / WriteStorage / Entities (reads, writes, setup, fetch)", "shred World borrow tracking", "shred DispatcherBuilder / StagesBuilder (the planner whose Debug output is executed)", "RunNow::run_now", "Dispatcher::dispatch_seq (sanity run)"],
            "stub": ["shred Stage::execute + the rayon pool are replaced by the baton executor (groups of a stage = simulated tasks)", "Dispatcher::dispatch on real pools is not part of the check (its schedule would not be decided by the simulator)"]
        })
    }
}
