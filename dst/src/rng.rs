//! Self-contained seeded PRNG (SplitMix64 seeding xoshiro256**). No clock, no OS randomness.

#[derive(Clone, Debug)]
pub struct Rng {
    s: [u64; 4],
}

pub fn splitmix(x: &mut u64) -> u64 {
    *x = x.wrapping_add(0x9E37_79B9_7F4A_7C15);
    let mut z = *x;
    z = (z ^ (z >> 30)).wrapping_mul(0xBF58_476D_1CE4_E5B9);
    z = (z ^ (z >> 27)).wrapping_mul(0x94D0_49BB_1331_11EB);
    z ^ (z >> 31)
}

/// Mixes several integers into one seed (order-sensitive).
pub fn mix(parts: &[u64]) -> u64 {
    let mut acc: u64 = 0x5851_F42D_4C95_7F2D;
    for &p in parts {
        let mut x = acc ^ p.wrapping_mul(0xD6E8_FEB8_6659_FD93);
        acc = splitmix(&mut x).rotate_left(17) ^ p;
        let mut y = acc;
        acc = splitmix(&mut y);
    }
    acc
}

pub fn hash_str(s: &str) -> u64 {
    // FNV-1a
    let mut h: u64 = 0xcbf29ce484222325;
    for b in s.bytes() {
        h ^= b as u64;
        h = h.wrapping_mul(0x100000001b3);
    }
    h
}

impl Rng {
    pub fn new(seed: u64) -> Self {
        let mut x = seed;
        let s = [
            splitmix(&mut x),
            splitmix(&mut x),
            splitmix(&mut x),
            splitmix(&mut x),
        ];
        Rng { s }
    }

    /// Derives an independent stream.
    pub fn fork(&mut self, tag: u64) -> Rng {
        let a = self.next_u64();
        Rng::new(mix(&[a, tag]))
    }

    pub fn next_u64(&mut self) -> u64 {
        let result = self.s[1].wrapping_mul(5).rotate_left(7).wrapping_mul(9);
        let t = self.s[1] << 17;
        self.s[2] ^= self.s[0];
        self.s[3] ^= self.s[1];
        self.s[1] ^= self.s[2];
        self.s[0] ^= self.s[3];
        self.s[2] ^= t;
        self.s[3] = self.s[3].rotate_left(45);
        result
    }

    /// Uniform in `0..n` (`n > 0`).
    pub fn below(&mut self, n: u64) -> u64 {
        debug_assert!(n > 0);
        // multiply-shift; bias is negligible for our n
        ((self.next_u64() as u128 * n as u128) >> 64) as u64
    }

    pub fn usize_below(&mut self, n: usize) -> usize {
        self.below(n as u64) as usize
    }

    /// Uniform in `lo..=hi`.
    pub fn range(&mut self, lo: u64, hi: u64) -> u64 {
        lo + self.below(hi - lo + 1)
    }

    /// True with probability `num/den`.
    pub fn chance(&mut self, num: u64, den: u64) -> bool {
        self.below(den) < num
    }

    pub fn pick<'a, T>(&mut self, xs: &'a [T]) -> &'a T {
        &xs[self.usize_below(xs.len())]
    }

    /// Picks an index according to integer weights (at least one non-zero).
    pub fn weighted(&mut self, weights: &[u32]) -> usize {
        let total: u64 = weights.iter().map(|&w| w as u64).sum();
        debug_assert!(total > 0);
        let mut r = self.below(total);
        for (i, &w) in weights.iter().enumerate() {
            if r < w as u64 {
                return i;
            }
            r -= w as u64;
        }
        weights.len() - 1
    }

    pub fn shuffle<T>(&mut self, xs: &mut [T]) {
        for i in (1..xs.len()).rev() {
            let j = self.usize_below(i + 1);
            xs.swap(i, j);
        }
    }
}

/// Streaming 64-bit hasher for traces (deterministic across processes).
#[derive(Clone, Copy, Debug)]
pub struct TraceHash(pub u64);

impl Default for TraceHash {
    fn default() -> Self {
        TraceHash(0x1234_5678_9ABC_DEF1)
    }
}

impl TraceHash {
    pub fn add(&mut self, x: u64) {
        let mut y = self.0 ^ x.wrapping_mul(0x9E37_79B9_7F4A_7C15);
        self.0 = splitmix(&mut y);
    }
    pub fn add_str(&mut self, s: &str) {
        self.add(hash_str(s));
    }
}
