//! E1 worldsim: storage, restricted-storage, tracking, lazy and change-set operations.

use crate::comps::{EntryOp, EntryOut, MutPlan, OtherMode, RestrictItem, SliceOut, V};
use crate::ledger::{self, Val, FILLER_PAYLOAD};
use crate::wcase::*;
use crate::wexec::{zp, Exec, R};
use crate::wmodel::LazyAct;
use crate::wscript::make_closure;
use specs::prelude::*;
use std::collections::BTreeMap;

fn acc_props(dead: bool) -> &'static [&'static str] {
    if dead {
        &["C03"]
    } else {
        &["C04"]
    }
}

impl Exec {
    fn note_probe(&mut self, hn: usize) {
        if self.model.hs[hn].dead {
            self.stale_op = true;
            self.stats.stale_probes += 1;
            let idx = self.model.hs[hn].ent.id();
            if self.model.occ.contains_key(&idx) {
                self.stats.stale_probes_reoccupied += 1;
            }
        }
    }

    fn mismatch<T: std::fmt::Debug>(
        &self,
        ps: &[&str],
        oracle: &str,
        what: &str,
        slot: u8,
        e: Entity,
        got: &T,
        exp: &T,
    ) -> crate::wexec::Violation {
        self.viol(
            ps,
            oracle,
            format!(
                "slot {} ({}): {}({:?}) = {:?}, expected {:?}",
                slot,
                self.slots[slot as usize].kind().name(),
                what,
                e,
                got,
                exp
            ),
        )
    }

    /// resolve `(H, m, write)` acts to live indices
    fn resolve_acts(&self, acts: &[(H, bool, Option<i64>)]) -> Vec<(u32, bool, Option<i64>)> {
        let mut v = vec![];
        for (h, m, w) in acts {
            if let Some((hn, e)) = self.res(*h) {
                if self.model.alive(hn) && !v.iter().any(|a: &(u32, bool, Option<i64>)| a.0 == e.id()) {
                    v.push((e.id(), *m, *w));
                }
            }
        }
        v
    }
}

fn act_of(acts: &[(u32, bool, Option<i64>)], idx: u32) -> (bool, Option<i64>) {
    acts.iter()
        .find(|a| a.0 == idx)
        .map(|a| (a.1, a.2))
        .unwrap_or((false, None))
}

pub fn apply_storage_op(ex: &mut Exec, uid: u32, kind: &OpKind) -> R {
    if let OpKind::ByRef(inner) = kind {
        struct Reset;
        impl Drop for Reset {
            fn drop(&mut self) {
                crate::comps::BYREF.store(false, std::sync::atomic::Ordering::Relaxed);
            }
        }
        let _reset = Reset;
        crate::comps::BYREF.store(true, std::sync::atomic::Ordering::Relaxed);
        ex.stats.probe("generic_storage_by_reference_overload");
        return apply_storage_op(ex, uid, inner);
    }
    ex.stale_op = false;
    ex.restrict_op = matches!(
        kind,
        OpKind::RestrictRead { .. } | OpKind::RestrictShared { .. } | OpKind::RestrictExcl { .. }
    );
    let state_props: Vec<&str> = match kind {
        OpKind::Insert {
            slot,
            h,
            payload,
            generic,
        } => {
            let Some((hn, e)) = ex.res(*h) else { return ex.skip() };
            ex.note_probe(hn);
            let s = *slot as usize;
            let (id, r) = if *generic {
                ex.slots[s].insert_generic(ex.w(), e, *payload)
            } else {
                ex.slots[s].insert(ex.w(), e, *payload)
            };
            ex.stats.values_created += 1;
            let dead = ex.model.hs[hn].dead;
            let exp = ex.model.insert(s, hn, (id, zp(&ex.model, *slot, *payload)));
            let got = r.map_err(|_| ());
            if got != exp {
                return Err(ex.mismatch(acc_props(dead), "insert-result", "insert", *slot, e, &got, &exp));
            }
            if let Ok(Some(_)) = got {
                ex.stats.values_returned += 1;
            }
            acc_props(dead).to_vec()
        }
        OpKind::Get { slot, h, read } => {
            let Some((hn, e)) = ex.res(*h) else { return ex.skip() };
            ex.note_probe(hn);
            let s = *slot as usize;
            let got = if *read {
                ex.slots[s].get_read(ex.w(), e)
            } else {
                ex.slots[s].get(ex.w(), e)
            };
            let exp = ex.model.get(s, hn);
            let dead = ex.model.hs[hn].dead;
            if got != exp {
                return Err(ex.mismatch(acc_props(dead), "get-result", "get", *slot, e, &got, &exp));
            }
            acc_props(dead).to_vec()
        }
        OpKind::GetMut {
            slot,
            h,
            touch,
            write,
        }
        | OpKind::LendGetMut {
            slot,
            h,
            touch,
            write,
        } => {
            let Some((hn, e)) = ex.res(*h) else { return ex.skip() };
            ex.note_probe(hn);
            let s = *slot as usize;
            let lend = matches!(kind, OpKind::LendGetMut { .. });
            let got = if lend {
                ex.slots[s].lend_get_mut(ex.w(), e, *touch, *write)
            } else {
                ex.slots[s].get_mut(ex.w(), e, *touch, *write)
            };
            let exp = ex.model.get(s, hn);
            let dead = ex.model.hs[hn].dead;
            if got != exp {
                return Err(ex.mismatch(
                    acc_props(dead),
                    "get-mut-result",
                    if lend { "lend_join().get" } else { "get_mut" },
                    *slot,
                    e,
                    &got,
                    &exp,
                ));
            }
            if exp.is_some() {
                ex.model.mut_access(s, e.id(), *touch, *write);
            }
            acc_props(dead).to_vec()
        }
        OpKind::LendGet { slot, h } => {
            let Some((hn, e)) = ex.res(*h) else { return ex.skip() };
            ex.note_probe(hn);
            let s = *slot as usize;
            let got = ex.slots[s].lend_get(ex.w(), e);
            let exp = ex.model.get(s, hn);
            let dead = ex.model.hs[hn].dead;
            if got != exp {
                return Err(ex.mismatch(acc_props(dead), "get-result", "lend_join().get", *slot, e, &got, &exp));
            }
            acc_props(dead).to_vec()
        }
        OpKind::Remove { slot, h, lend } => {
            let Some((hn, e)) = ex.res(*h) else { return ex.skip() };
            ex.note_probe(hn);
            let s = *slot as usize;
            let got = if *lend {
                ex.stats.probe("remove_through_draining_lend_join_lookup");
                ex.slots[s].lend_drain(ex.w(), e)
            } else {
                ex.slots[s].remove(ex.w(), e)
            };
            let exp = ex.model.remove(s, hn);
            let dead = ex.model.hs[hn].dead;
            if got != exp {
                return Err(ex.mismatch(acc_props(dead), "remove-result", "remove", *slot, e, &got, &exp));
            }
            if got.is_some() {
                ex.stats.values_returned += 1;
            }
            acc_props(dead).to_vec()
        }
        OpKind::Contains { slot, h } => {
            let Some((hn, e)) = ex.res(*h) else { return ex.skip() };
            ex.note_probe(hn);
            let s = *slot as usize;
            let got = ex.slots[s].contains(ex.w(), e);
            let exp = ex.model.get(s, hn).is_some();
            let dead = ex.model.hs[hn].dead;
            if got != exp {
                return Err(ex.mismatch(acc_props(dead), "contains-result", "contains", *slot, e, &got, &exp));
            }
            acc_props(dead).to_vec()
        }
        OpKind::Entry {
            slot,
            h,
            op,
            payload,
            write,
        } => {
            let Some((hn, e)) = ex.res(*h) else { return ex.skip() };
            ex.note_probe(hn);
            let s = *slot as usize;
            let got = ex.slots[s].entry(ex.w(), e, *op, *payload, *write);
            let dead = ex.model.hs[hn].dead;
            let exp = model_entry(ex, s, hn, *op, *payload, *write, &got);
            if got != exp {
                return Err(ex.mismatch(acc_props(dead), "entry-result", "entry", *slot, e, &got, &exp));
            }
            acc_props(dead).to_vec()
        }
        OpKind::GetMutOrDefault {
            slot,
            h,
            touch,
            write,
        } => {
            let Some((hn, e)) = ex.res(*h) else { return ex.skip() };
            ex.note_probe(hn);
            let s = *slot as usize;
            let got = ex.slots[s].get_mut_or_default(ex.w(), e, *touch, *write);
            let dead = ex.model.hs[hn].dead;
            let zst = ex.model.kinds[s].zst();
            let exp: Option<V> = if dead {
                // a default value is created, refused by insert and destroyed
                if zst {
                    ex.model.exp_zst_destroyed += 1;
                }
                None
            } else if let Some(cur) = ex.model.get(s, hn) {
                ex.model.mut_access(s, e.id(), *touch, *write);
                Some(cur)
            } else {
                // the default just inserted: the model adopts its identity after checking it is a
                // fresh default-constructed value
                let adopt = match got {
                    Some((id, p)) if zst => (id, p) == (0, 0),
                    Some((id, p)) => {
                        p == FILLER_PAYLOAD
                            && ledger::is_filler(id)
                            && !ex.model.comps.iter().any(|m| m.values().any(|v| v.0 == id))
                    }
                    None => false,
                };
                if adopt {
                    let v = got.unwrap();
                    let _ = ex.model.insert(s, hn, v);
                    ex.model.mut_access(s, e.id(), *touch, *write);
                    Some(v)
                } else {
                    Some((u64::MAX, FILLER_PAYLOAD))
                }
            };
            if got != exp {
                return Err(ex.mismatch(
                    acc_props(dead),
                    "get-mut-or-default-result",
                    "get_mut_or_default",
                    *slot,
                    e,
                    &got,
                    &exp,
                ));
            }
            acc_props(dead).to_vec()
        }
        OpKind::Drain { slot, take } => {
            let s = *slot as usize;
            let got = ex.slots[s].drain(ex.w(), *take as usize);
            let idxs: Vec<u32> = ex.model.comps[s].keys().copied().take(*take as usize).collect();
            let mut exp = vec![];
            for i in idxs {
                let v = ex.model.remove_raw(s, i).unwrap();
                exp.push((i, v));
            }
            ex.stats.values_returned += exp.len() as u64;
            if got != exp {
                return Err(ex.viol(
                    &["C04"],
                    "drain-result",
                    format!("slot {}: drain yielded {:?}, expected {:?}", slot, got, exp),
                ));
            }
            vec!["C04"]
        }
        OpKind::Clear { slot } => {
            let s = *slot as usize;
            ex.slots[s].clear(ex.w());
            ex.model.clear_slot(s);
            vec!["C04"]
        }
        OpKind::SliceRead { slot } => {
            let s = *slot as usize;
            let got = ex.slots[s].slice(ex.w());
            check_slice(ex, s, &got)?;
            vec!["C04"]
        }
        OpKind::SliceWrite { slot, h, payload } => {
            let Some((hn, e)) = ex.res(*h) else { return ex.skip() };
            let s = *slot as usize;
            let kind = ex.model.kinds[s];
            let Some(cur) = ex.model.get(s, hn) else { return ex.skip() };
            if !kind.has_slice() {
                return ex.skip();
            }
            let pos = if kind.inner == crate::comps::Inner::Dense {
                let Some(view) = ex.slots[s].slice(ex.w()) else { return ex.skip() };
                match view.items.iter().find(|it| (it.1).0 == cur.0) {
                    Some(it) => it.0,
                    None => {
                        return Err(ex.viol(
                            &["C04"],
                            "slice-view",
                            format!("slot {}: dense slice does not contain value {:?}", slot, cur),
                        ))
                    }
                }
            } else {
                e.id()
            };
            if !ex.slots[s].slice_write(ex.w(), pos, *payload) {
                return Err(ex.viol(
                    &["C04"],
                    "slice-view",
                    format!("slot {}: as_mut_slice() has no position {}", slot, pos),
                ));
            }
            ex.model.raw_write(s, e.id(), *payload);
            vec!["C04"]
        }
        OpKind::JoinMut {
            slot,
            lend,
            take,
            acts,
        } => {
            let s = *slot as usize;
            let kind = ex.model.kinds[s];
            if !*lend && !kind.shared_mut() {
                return ex.skip();
            }
            let racts = ex.resolve_acts(acts);
            let plan = MutPlan {
                take: *take as usize,
                acts: &racts,
            };
            let got = if *lend {
                ex.slots[s].lend_join_mut(ex.w(), &plan)
            } else {
                match ex.slots[s].join_mut(ex.w(), &plan) {
                    Some(g) => g,
                    None => return ex.skip(),
                }
            };
            let visited: Vec<(u32, V)> = ex.model.joined(s).into_iter().take(*take as usize).collect();
            for (i, _) in &visited {
                let (m, wr) = act_of(&racts, *i);
                ex.model.mut_access(s, *i, if *lend { m } else { false }, wr);
            }
            if got != visited {
                return Err(ex.viol(
                    &["C04"],
                    "mutable-join-items",
                    format!("slot {}: mutable join yielded {:?}, expected {:?}", slot, got, visited),
                ));
            }
            vec!["C04"]
        }
        OpKind::EntriesOrInsert { slot, payload_base } => {
            let s = *slot as usize;
            let got = ex.slots[s].entries_or_insert(ex.w(), *payload_base);
            let live = ex.model.live_handles();
            if got.len() != live.len() {
                return Err(ex.viol(
                    &["C04"],
                    "entries-join",
                    format!("slot {}: entries() join visited {} entities, expected {}", slot, got.len(), live.len()),
                ));
            }
            for (hn, g) in live.iter().zip(got.iter()) {
                let idx = ex.model.hs[*hn].ent.id();
                let cur = ex.model.get(s, *hn);
                let (gidx, gocc, gseen, gmade) = *g;
                let exp_seen = match cur {
                    Some(v) => v,
                    None => (gmade, zp(&ex.model, *slot, *payload_base + idx as i64)),
                };
                if gidx != idx || gocc != cur.is_some() || gseen != exp_seen || (cur.is_some() && gmade != 0) {
                    return Err(ex.viol(
                        &["C04"],
                        "entries-join",
                        format!(
                            "slot {}: entries() item {:?}, expected index {} occupied {} value {:?}",
                            slot,
                            g,
                            idx,
                            cur.is_some(),
                            exp_seen
                        ),
                    ));
                }
                if cur.is_none() {
                    ex.stats.values_created += 1;
                    let _ = ex.model.insert(s, *hn, exp_seen);
                }
                ex.model.mut_access(s, idx, false, None);
            }
            vec!["C04"]
        }
        OpKind::RestrictRead {
            slot,
            lend,
            take,
            others,
        } => {
            let s = *slot as usize;
            let os: Vec<(usize, Entity)> = others.iter().filter_map(|h| ex.res(*h)).collect();
            let oes: Vec<Entity> = os.iter().map(|x| x.1).collect();
            let got = ex.slots[s].restrict_read(ex.w(), *lend, *take as usize, &oes);
            let mut exp = vec![];
            for (i, v) in ex.model.joined(s).iter().take(*take as usize) {
                exp.push(RestrictItem {
                    idx: *i,
                    own: *v,
                    others: os.iter().map(|(hn, _)| ex.model.get(s, *hn)).collect(),
                });
            }
            for (hn, _) in &os {
                ex.note_probe(*hn);
            }
            *ex.stats.probes.entry("restricted_items_visited".into()).or_insert(0) += exp.len() as u64;
            if got != exp {
                let d = crate::wexec::first_diff(&got, &exp);
                // a wrong answer for a dead other-entity handle is also C03's subject
                let stale_other = match (got.get(d), exp.get(d)) {
                    (Some(g), Some(e)) if g.own == e.own && g.idx == e.idx => g
                        .others
                        .iter()
                        .zip(e.others.iter())
                        .zip(os.iter())
                        .any(|((a, b), (hn, _))| a != b && ex.model.hs[*hn].dead),
                    _ => false,
                };
                return Err(ex.viol(
                    if stale_other { &["C13", "C03"] } else { &["C13"] },
                    "restricted-read",
                    format!(
                        "slot {} ({}): restricted join item {} is {:?}, expected {:?} (other entities {:?})",
                        slot,
                        ex.model.kinds[s].name(),
                        d,
                        got.get(d),
                        exp.get(d),
                        oes
                    ),
                ));
            }
            vec!["C13"]
        }
        OpKind::RestrictShared { slot, take, acts } => {
            let s = *slot as usize;
            if !ex.model.kinds[s].shared_mut() {
                return ex.skip();
            }
            let racts = ex.resolve_acts(acts);
            let plan = MutPlan {
                take: *take as usize,
                acts: &racts,
            };
            let Some(got) = ex.slots[s].restrict_shared(ex.w(), &plan) else { return ex.skip() };
            let visited: Vec<(u32, V)> = ex.model.joined(s).into_iter().take(*take as usize).collect();
            for (i, _) in &visited {
                let (m, wr) = act_of(&racts, *i);
                if m || wr.is_some() {
                    ex.model.mut_access(s, *i, true, wr);
                }
            }
            *ex.stats.probes.entry("restricted_items_visited".into()).or_insert(0) += visited.len() as u64;
            *ex.stats.probes.entry("restricted_items_fetched_mutably".into()).or_insert(0) +=
                visited.iter().filter(|(i, _)| { let (m, w) = act_of(&racts, *i); m || w.is_some() }).count() as u64;
            if got != visited {
                return Err(ex.viol(
                    &["C13"],
                    "restricted-items",
                    format!("slot {}: restricted mutable join yielded {:?}, expected {:?}", slot, got, visited),
                ));
            }
            vec!["C13"]
        }
        OpKind::RestrictExcl {
            slot,
            take,
            acts,
            others,
        } => {
            let s = *slot as usize;
            let racts = ex.resolve_acts(acts);
            let os: Vec<(usize, Entity, OtherMode)> = others
                .iter()
                .filter_map(|(h, m)| ex.res(*h).map(|(hn, e)| (hn, e, *m)))
                .collect();
            let oes: Vec<(Entity, OtherMode)> = os.iter().map(|x| (x.1, x.2)).collect();
            let plan = MutPlan {
                take: *take as usize,
                acts: &racts,
            };
            let got = ex.slots[s].restrict_excl(ex.w(), &plan, &oes);
            let idxs: Vec<u32> = ex.model.joined(s).iter().map(|x| x.0).take(*take as usize).collect();
            let mut exp = vec![];
            for i in idxs {
                let own = ex.model.comps[s][&i];
                let (m, wr) = act_of(&racts, i);
                if m || wr.is_some() {
                    ex.model.mut_access(s, i, true, wr);
                }
                let mut ov = vec![];
                for (hn, oe, mode) in &os {
                    let cur = ex.model.get(s, *hn);
                    if cur.is_some() {
                        match mode {
                            OtherMode::Read => {}
                            OtherMode::Mut => ex.model.mut_access(s, oe.id(), true, None),
                            OtherMode::MutWrite(p) => ex.model.mut_access(s, oe.id(), true, Some(*p)),
                        }
                    }
                    ov.push(cur);
                }
                exp.push(RestrictItem {
                    idx: i,
                    own,
                    others: ov,
                });
            }
            for (hn, _, _) in &os {
                ex.note_probe(*hn);
            }
            *ex.stats.probes.entry("restricted_items_visited".into()).or_insert(0) += exp.len() as u64;
            if got != exp {
                let d = crate::wexec::first_diff(&got, &exp);
                let stale_other = match (got.get(d), exp.get(d)) {
                    (Some(g), Some(e)) if g.own == e.own && g.idx == e.idx => g
                        .others
                        .iter()
                        .zip(e.others.iter())
                        .zip(os.iter())
                        .any(|((a, b), (hn, _, _))| a != b && ex.model.hs[*hn].dead),
                    _ => false,
                };
                return Err(ex.viol(
                    if stale_other { &["C13", "C03"] } else { &["C13"] },
                    "restricted-exclusive",
                    format!(
                        "slot {} ({}): exclusive restricted item {} is {:?}, expected {:?} (other entities {:?})",
                        slot,
                        ex.model.kinds[s].name(),
                        d,
                        got.get(d),
                        exp.get(d),
                        oes
                    ),
                ));
            }
            vec!["C13"]
        }
        OpKind::RegisterReader { slot } => {
            let s = *slot as usize;
            if !ex.model.kinds[s].tracked() {
                return ex.skip();
            }
            ex.slots[s].register_reader(ex.w());
            let keys = ex.model.comps[s].keys().copied().collect();
            let t = &mut ex.model.track[s];
            t.reader = true;
            t.replayed = keys;
            t.replay_valid = true;
            t.emission_was_off = !t.emission;
            t.expected.clear();
            vec!["C12"]
        }
        OpKind::SetEmission { slot, on } => {
            let s = *slot as usize;
            if !ex.model.kinds[s].tracked() {
                return ex.skip();
            }
            ex.slots[s].set_emission(ex.w(), *on);
            let t = &mut ex.model.track[s];
            t.emission = *on;
            if !*on {
                t.emission_was_off = true;
            }
            if ex.slots[s].emission(ex.w()) != *on {
                return Err(ex.viol(
                    &["C12"],
                    "emission-flag",
                    format!("slot {}: event_emission() does not report {}", slot, on),
                ));
            }
            vec!["C12"]
        }
        OpKind::LazyInsert { slot, h, payload } => {
            let Some((hn, e)) = ex.res(*h) else { return ex.skip() };
            let id = {
                let w = ex.w();
                let lazy = w.read_resource::<LazyUpdate>();
                ex.slots[*slot as usize].lazy_insert(&lazy, e, *payload)
            };
            ex.stats.values_created += 1;
            ex.model.lazy.push_back(LazyAct::Insert {
                slot: *slot,
                hn,
                v: (id, zp(&ex.model, *slot, *payload)),
            });
            vec!["C09"]
        }
        OpKind::LazyInsertAll { slot, items } => {
            let rs: Vec<(usize, Entity, i64)> = items
                .iter()
                .filter_map(|(h, p)| ex.res(*h).map(|(hn, e)| (hn, e, *p)))
                .collect();
            let ids = {
                let w = ex.w();
                let lazy = w.read_resource::<LazyUpdate>();
                ex.slots[*slot as usize]
                    .lazy_insert_all(&lazy, rs.iter().map(|x| (x.1, x.2)).collect())
            };
            ex.stats.values_created += ids.len() as u64;
            let items = rs
                .iter()
                .zip(ids.iter())
                .map(|((hn, _, p), id)| (*hn, (*id, zp(&ex.model, *slot, *p))))
                .collect();
            ex.model.lazy.push_back(LazyAct::InsertAll { slot: *slot, items });
            vec!["C09"]
        }
        OpKind::LazyRemove { slot, h } => {
            let Some((hn, e)) = ex.res(*h) else { return ex.skip() };
            {
                let w = ex.w();
                let lazy = w.read_resource::<LazyUpdate>();
                ex.slots[*slot as usize].lazy_remove(&lazy, e);
            }
            ex.model.lazy.push_back(LazyAct::Remove { slot: *slot, hn });
            vec!["C09"]
        }
        OpKind::LazyExec { script, mutable } => {
            {
                let w = ex.w();
                let lazy = w.read_resource::<LazyUpdate>();
                let c = make_closure(uid, script.clone(), ex.ctx.clone());
                if *mutable {
                    lazy.exec_mut(c);
                } else {
                    lazy.exec(c);
                }
            }
            ex.model.lazy.push_back(LazyAct::Exec {
                cid: uid,
                script: script.clone(),
                depth: 0,
            });
            vec!["C09"]
        }
        OpKind::EntryHuge { slot, payload } => {
            let s = *slot as usize;
            let kind = ex.model.kinds[s];
            if kind.inner == crate::comps::Inner::DefaultVec {
                // would fill 2^24 default slots
                return ex.skip();
            }
            let (id, panicked) = ex.slots[s].entry_huge(ex.w(), *payload);
            ex.stats.values_created += 1;
            ex.stats.probe("mask_update_unwound_after_raw_insert");
            if !panicked {
                // the mask accepted the index after all: then it simply is a component without an
                // entity (the raw-index API does not ask for one)
                let v = (id, zp(&ex.model, *slot, *payload));
                ex.model.comps[s].insert(crate::comps::HUGE_INDEX, v);
                if kind.tracked() {
                    let t = &mut ex.model.track[s];
                    if t.reader && t.emission {
                        t.expected.push(crate::wmodel::ExpEv { ev: crate::comps::Ev::Ins(crate::comps::HUGE_INDEX), must: true });
                        t.expected.push(crate::wmodel::ExpEv { ev: crate::comps::Ev::Mod(crate::comps::HUGE_INDEX), must: false });
                    }
                }
                return ex.post(&["C04"]);
            }
            // the value is taken out again and destroyed exactly once; nothing else changes
            ex.model.note_destroyed(s, (id, zp(&ex.model, *slot, *payload)));
            if kind.tracked() {
                let t = &mut ex.model.track[s];
                if t.reader && t.emission {
                    t.expected.push(crate::wmodel::ExpEv { ev: crate::comps::Ev::Ins(crate::comps::HUGE_INDEX), must: true });
                    t.expected.push(crate::wmodel::ExpEv { ev: crate::comps::Ev::Rem(crate::comps::HUGE_INDEX), must: true });
                }
            }
            vec!["C08", "C04"]
        }
        OpKind::ChangeSet { pairs, consume } => {
            changeset_op(ex, pairs, *consume)?;
            vec!["C08"]
        }
        other => {
            return Err(ex.viol(
                &[],
                "harness",
                format!("operation {:?} is not handled by apply_storage_op", other),
            ))
        }
    };
    let r = ex.post(&state_props);
    ex.restrict_op = false;
    ex.stale_op = false;
    r
}

fn model_entry(
    ex: &mut Exec,
    s: usize,
    hn: usize,
    op: EntryOp,
    payload: i64,
    write: Option<i64>,
    got: &EntryOut,
) -> EntryOut {
    if ex.model.hs[hn].dead {
        return EntryOut::Refused;
    }
    let idx = ex.model.hs[hn].ent.id();
    let cur = ex.model.get(s, hn);
    let was_occupied = cur.is_some();
    // identity of the value the call created is taken from the real result (handle-agnostic)
    let got_new = match got {
        EntryOut::Done { new_id, .. } => *new_id,
        _ => 0,
    };
    let p = zp(&ex.model, s as u8, payload);
    let mut seen = None;
    let mut returned = None;
    let mut new_id = 0;
    let mut new_used = false;
    match op {
        EntryOp::Get => seen = cur,
        EntryOp::GetMut => {
            if let Some(c) = cur {
                seen = Some(c);
                ex.model.mut_access(s, idx, true, write);
            }
        }
        EntryOp::Insert => {
            new_id = got_new;
            new_used = true;
            ex.stats.values_created += 1;
            match ex.model.insert(s, hn, (new_id, p)) {
                Ok(Some(old)) => returned = Some(old),
                _ => {
                    seen = Some((new_id, p));
                    ex.model.mut_access(s, idx, false, write);
                }
            }
        }
        EntryOp::Remove => {
            if was_occupied {
                returned = ex.model.remove(s, hn);
            }
        }
        EntryOp::Replace => {
            new_id = got_new;
            new_used = true;
            ex.stats.values_created += 1;
            match ex.model.insert(s, hn, (new_id, p)) {
                Ok(Some(old)) => returned = Some(old),
                _ => ex.model.mut_access(s, idx, false, None),
            }
        }
        EntryOp::OrInsert | EntryOp::OrInsertWith => {
            if let Some(c) = cur {
                seen = Some(c);
                if op == EntryOp::OrInsert {
                    new_id = got_new;
                    ex.stats.values_created += 1;
                    ex.model.note_destroyed(s, (new_id, p));
                }
                ex.model.mut_access(s, idx, false, write);
            } else {
                new_id = got_new;
                new_used = true;
                ex.stats.values_created += 1;
                let _ = ex.model.insert(s, hn, (new_id, p));
                seen = Some((new_id, p));
                ex.model.mut_access(s, idx, false, write);
            }
        }
    }
    EntryOut::Done {
        was_occupied,
        seen,
        returned,
        new_id,
        new_used,
    }
}

fn check_slice(ex: &mut Exec, s: usize, got: &Option<SliceOut>) -> R {
    let kind = ex.model.kinds[s];
    let Some(view) = got else {
        if kind.has_slice() {
            return Err(ex.viol(&["C04"], "slice-view", format!("slot {}: no slice view", s)));
        }
        return Ok(());
    };
    let exp: Vec<(u32, V)> = ex.model.comps[s].iter().map(|(i, v)| (*i, *v)).collect();
    let bad = |ex: &Exec, d: String| Err(ex.viol(&["C04"], "slice-view", format!("slot {} ({}): {}", s, kind.name(), d)));
    match kind.inner {
        crate::comps::Inner::Vec => {
            if view.items != exp {
                return bad(ex, format!("slice holds {:?} at the occupied indices, expected {:?}", view.items, exp));
            }
            if let Some((mx, _)) = exp.last() {
                if view.len <= *mx as usize {
                    return bad(ex, format!("slice length {} does not cover index {}", view.len, mx));
                }
            }
        }
        crate::comps::Inner::DefaultVec => {
            let m: BTreeMap<u32, V> = exp.iter().copied().collect();
            if let Some((mx, _)) = exp.last() {
                if view.len <= *mx as usize {
                    return bad(ex, format!("slice length {} does not cover index {}", view.len, mx));
                }
            }
            for (pos, v) in &view.items {
                match m.get(pos) {
                    Some(e) => {
                        if e != v {
                            return bad(ex, format!("slice[{}] = {:?}, expected {:?}", pos, v, e));
                        }
                    }
                    None => {
                        let is_default = v.1 == FILLER_PAYLOAD
                            && ledger::is_filler(v.0)
                            && ledger::state(v.0) == Some(ledger::VState::Live);
                        let limbo_ok = ex.cfg.faults
                            && ex.stats.faults_fired > 0
                            && ledger::state(v.0) == Some(ledger::VState::Live);
                        if !is_default && !limbo_ok {
                            return bad(
                                ex,
                                format!(
                                    "slice[{}] = {:?} (ledger {:?}) at an unoccupied index, expected a live default value",
                                    pos,
                                    v,
                                    ledger::state(v.0)
                                ),
                            );
                        }
                    }
                }
            }
        }
        crate::comps::Inner::Dense => {
            let mut a: Vec<V> = view.items.iter().map(|x| x.1).collect();
            let mut b: Vec<V> = exp.iter().map(|x| x.1).collect();
            a.sort();
            b.sort();
            if a != b || view.len != exp.len() {
                return bad(ex, format!("dense slice holds {:?}, expected a permutation of {:?}", a, b));
            }
        }
        _ => {}
    }
    Ok(())
}

// ------------------------------------------------------------------------------------------------
// change sets (value conservation only: C08 / C19)

#[derive(Debug)]
pub struct CsVal(pub Val);

impl std::ops::AddAssign for CsVal {
    fn add_assign(&mut self, rhs: CsVal) {
        self.0.payload = self.0.payload.wrapping_add(rhs.0.payload);
        // `rhs` is destroyed here: its amount has been combined
    }
}

fn changeset_op(ex: &mut Exec, pairs: &[(H, i64)], consume: CsConsume) -> R {
    use specs::changeset::ChangeSet;
    let rs: Vec<(Entity, i64)> = pairs
        .iter()
        .filter_map(|(h, p)| ex.ctx.resolve(*h).map(|e| (e, *p)))
        .collect();
    if rs.is_empty() {
        return ex.skip();
    }
    let mut cs: ChangeSet<CsVal> = ChangeSet::new();
    let mut exp: BTreeMap<u32, V> = BTreeMap::new();
    for (e, p) in &rs {
        let v = ledger::new_val(*p);
        let id = v.id;
        ex.stats.values_created += 1;
        cs.add(*e, CsVal(v));
        match exp.get_mut(&e.id()) {
            Some(cur) => {
                cur.1 = cur.1.wrapping_add(*p);
                ex.model.exp_destroyed.push(id);
            }
            None => {
                exp.insert(e.id(), (id, *p));
            }
        }
    }
    let read = |cs: &ChangeSet<CsVal>| -> Vec<V> {
        (cs).join().map(|c| (c.0.id, c.0.payload)).collect()
    };
    let expect_list = |exp: &BTreeMap<u32, V>| -> Vec<V> { exp.values().copied().collect() };
    let got0 = read(&cs);
    if got0 != expect_list(&exp) {
        return Err(ex.viol(
            &["C08"],
            "changeset-contents",
            format!("change set holds {:?}, expected {:?}", got0, expect_list(&exp)),
        ));
    }
    match consume {
        CsConsume::ReadThenDrop | CsConsume::Drop => {
            for v in exp.values() {
                ex.model.exp_destroyed.push(v.0);
            }
            drop(cs);
        }
        CsConsume::MutThenDrop => {
            for c in (&mut cs).join() {
                c.0.payload = c.0.payload.wrapping_add(1);
            }
            let got = read(&cs);
            let e2: Vec<V> = exp.values().map(|v| (v.0, v.1.wrapping_add(1))).collect();
            if got != e2 {
                return Err(ex.viol(
                    &["C08"],
                    "changeset-contents",
                    format!("after a mutable join the change set holds {:?}, expected {:?}", got, e2),
                ));
            }
            for v in exp.values() {
                ex.model.exp_destroyed.push(v.0);
            }
            drop(cs);
        }
        CsConsume::Full => {
            let got: Vec<V> = cs.join().map(|c| ledger::consume(c.0)).collect();
            ex.stats.values_returned += got.len() as u64;
            if got != expect_list(&exp) {
                return Err(ex.viol(
                    &["C08"],
                    "changeset-contents",
                    format!("consuming the change set yielded {:?}, expected {:?}", got, expect_list(&exp)),
                ));
            }
        }
        CsConsume::Partial(n) => {
            let got: Vec<V> = cs.join().take(n as usize).map(|c| ledger::consume(c.0)).collect();
            ex.stats.values_returned += got.len() as u64;
            let all = expect_list(&exp);
            let k = (n as usize).min(all.len());
            if got != all[..k] {
                return Err(ex.viol(
                    &["C08"],
                    "changeset-contents",
                    format!("partially consuming the change set yielded {:?}, expected {:?}", got, &all[..k]),
                ));
            }
            for v in &all[k..] {
                ex.model.exp_destroyed.push(v.0);
            }
        }
        CsConsume::Clear => {
            for v in exp.values() {
                ex.model.exp_destroyed.push(v.0);
            }
            if ex.cfg.faults {
                // keep the change set alive across a destructor panic and look at it afterwards
                let r = std::panic::catch_unwind(std::panic::AssertUnwindSafe(|| cs.clear()));
                if let Err(payload) = r {
                    let seen = std::panic::catch_unwind(std::panic::AssertUnwindSafe(|| read(&cs)));
                    match seen {
                        Ok(vals) => {
                            for v in vals {
                                if ledger::state(v.0) != Some(ledger::VState::Live) {
                                    return Err(ex.viol(
                                        &["C19"],
                                        "read-of-dead-value",
                                        format!(
                                            "after a destructor panicked inside ChangeSet::clear, joining the change set still yields value {} whose ledger state is {:?}",
                                            v.0,
                                            ledger::state(v.0)
                                        ),
                                    ));
                                }
                            }
                        }
                        Err(e) => {
                            return Err(ex.viol(
                                &["C19"],
                                "post-fault-panic",
                                format!(
                                    "after a destructor panicked inside ChangeSet::clear, joining the change set panicked: {}",
                                    crate::util::panic_message(&e)
                                ),
                            ))
                        }
                    }
                    std::panic::resume_unwind(payload);
                }
            } else {
                cs.clear();
            }
            let got = read(&cs);
            if !got.is_empty() {
                return Err(ex.viol(
                    &["C08"],
                    "changeset-contents",
                    format!("after clear() the change set still yields {:?}", got),
                ));
            }
            drop(cs);
        }
    }
    Ok(())
}
