//! E1 worldsim: parallel phases. 2-4 simulated tasks share `&World` (shared access only) under the
//! baton scheduler. Deferred operations commute, so the oracle is set-based.

use crate::baton::{run_tasks, TaskBody, TaskCtx};
use crate::comps::V;
use crate::wcase::*;
use crate::wexec::{props, zp, Exec, Violation, R};
use crate::wmodel::{LazyAct, Model};
use crate::wscript::{Ctx, LogEntry};
use specs::prelude::*;
use std::collections::{BTreeMap, BTreeSet, HashSet};
use std::sync::Mutex;

#[derive(Clone, Debug)]
enum ParLazy {
    Insert { slot: u8, ent: Entity, v: V },
    Remove { slot: u8, ent: Entity },
    Log { cid: u32 },
}

#[derive(Default)]
struct ParState {
    /// creations in the global order in which they returned
    created: Vec<(H, Entity)>,
    created_set: HashSet<(u32, i32)>,
    created_idx: BTreeSet<u32>,
    in_flight: usize,
    deletes: Vec<Entity>,
    lazy: Vec<ParLazy>,
    violation: Option<Violation>,
    /// join items that were not attributable when seen (in-flight creations): (uid, entity)
    pending_join_items: Vec<(u32, Entity)>,
    stats: BTreeMap<&'static str, u64>,
}

struct Shared<'a> {
    world: &'a World,
    model: &'a Model,
    ctx: Ctx,
    st: Mutex<ParState>,
}

impl<'a> Shared<'a> {
    fn fail(&self, uid: u32, ps: &[&str], oracle: &str, detail: String) {
        let mut st = self.st.lock().unwrap();
        if st.violation.is_none() {
            st.violation = Some(Violation {
                props: props(ps),
                oracle: oracle.to_string(),
                detail,
                at_uid: uid,
            });
        }
    }

    fn failed(&self) -> bool {
        self.st.lock().unwrap().violation.is_some()
    }

    fn probe(&self, name: &'static str) {
        *self.st.lock().unwrap().stats.entry(name).or_insert(0) += 1;
    }

    /// is the handle alive according to what has happened so far (monotone inside a phase)
    fn expect_alive(&self, e: Entity) -> Option<bool> {
        if let Some(hn) = self.model.lookup(e) {
            return Some(self.model.alive(hn));
        }
        let st = self.st.lock().unwrap();
        if st.created_set.contains(&(e.id(), e.gen().id())) {
            return Some(true);
        }
        None
    }

    fn begin_create(&self) {
        self.st.lock().unwrap().in_flight += 1;
    }

    /// a creation call returned `e`: uniqueness, occupancy, index bound, alive-for-creator
    fn end_create(&self, uid: u32, h: H, e: Entity, ents: &specs::world::EntitiesRes) {
        let mut bad: Option<(Vec<&str>, &str, String)> = None;
        {
            let mut st = self.st.lock().unwrap();
            if let Err((p, d)) = self.model.check_new_handle(e) {
                bad = Some((vec![p, "C10"], "new-handle-unique", d));
            } else if st.created_set.contains(&(e.id(), e.gen().id())) {
                bad = Some((
                    vec!["C10", "C01"],
                    "new-handle-unique",
                    format!("two concurrent creations returned the same handle {:?}", e),
                ));
            } else if st.created_idx.contains(&e.id()) {
                bad = Some((
                    vec!["C10", "C01"],
                    "new-handle-unique",
                    format!(
                        "concurrent creation returned {:?} whose index is occupied by another entity created in this phase",
                        e
                    ),
                ));
            } else {
                // C17: creations in flight count as occupying an index
                let bound = self
                    .model
                    .peak
                    .max(self.model.live_count() + st.created.len() + st.in_flight);
                if e.id() as usize >= bound {
                    bad = Some((
                        vec!["C17"],
                        "index-bound",
                        format!(
                            "concurrent creation returned index {} but at most {} entities were ever simultaneously not yet dead (in-flight creations included)",
                            e.id(),
                            bound
                        ),
                    ));
                }
            }
            st.in_flight -= 1;
            st.created.push((h, e));
            st.created_set.insert((e.id(), e.gen().id()));
            st.created_idx.insert(e.id());
            if e.gen().id() > 1 {
                *st.stats.entry("par_creation_reused_index").or_insert(0) += 1;
            }
        }
        self.ctx.bind(h, e);
        if let Some((ps, o, d)) = bad {
            self.fail(uid, &ps, o, d);
            return;
        }
        // alive for the creator as soon as the call returns
        if !ents.is_alive(e) {
            self.fail(
                uid,
                &["C10", "C02"],
                "alive-for-creator",
                format!("{:?} is not reported alive to its creator right after creation returned", e),
            );
        }
    }
}

fn task_body<'a>(sh: &'a Shared<'a>, ops: &'a [POp], slots: &'a [Box<dyn crate::comps::SlotOps>]) -> TaskBody<'a> {
    Box::new(move |t: &TaskCtx| {
        let ents = sh.world.entities();
        let lazy = sh.world.read_resource::<LazyUpdate>();
        for op in ops {
            t.yield_now("h.between_ops");
            if sh.failed() {
                return;
            }
            match &op.kind {
                POpKind::Create => {
                    sh.begin_create();
                    let e = ents.create();
                    sh.end_create(op.uid, H(op.uid, 0), e, &ents);
                }
                POpKind::CreateIter(n) => {
                    let mut it = ents.create_iter();
                    for k in 0..*n {
                        sh.begin_create();
                        let e = it.next().unwrap();
                        sh.end_create(op.uid, H(op.uid, k as u16), e, &ents);
                    }
                }
                POpKind::BuildEntity { dropped, .. } => {
                    sh.begin_create();
                    let b = ents.build_entity();
                    let e = b.entity;
                    sh.end_create(op.uid, H(op.uid, 0), e, &ents);
                    if *dropped {
                        drop(b);
                        sh.st.lock().unwrap().deletes.push(e);
                    } else {
                        b.build();
                    }
                }
                POpKind::LazyCreate { comps } => {
                    sh.begin_create();
                    let mut b = lazy.create_entity(&ents);
                    let e = b.entity;
                    sh.end_create(op.uid, H(op.uid, 0), e, &ents);
                    for &(s, p) in comps {
                        let (nb, id) = slots[s as usize].with_lazy(b, p);
                        b = nb;
                        // recorded right after the push returned: no yield point in between
                        sh.st.lock().unwrap().lazy.push(ParLazy::Insert {
                            slot: s,
                            ent: e,
                            v: (id, zp(sh.model, s, p)),
                        });
                    }
                    b.build();
                }
                POpKind::Delete(h) => {
                    let Some(e) = sh.ctx.resolve(*h) else { continue };
                    let Some(exp) = sh.expect_alive(e) else { continue };
                    let r = ents.delete(e);
                    if r.is_ok() != exp {
                        sh.fail(
                            op.uid,
                            &["C10", "C02"],
                            "concurrent-delete-result",
                            format!(
                                "Entities::delete({:?}) from a task returned {:?}; the entity is {}",
                                e,
                                r.map_err(|e| e.to_string()),
                                if exp { "alive (deletion requests for live handles must succeed)" } else { "dead" }
                            ),
                        );
                        return;
                    }
                    if exp {
                        sh.st.lock().unwrap().deletes.push(e);
                        sh.probe("par_delete_requested");
                    }
                }
                POpKind::IsAlive(h) => {
                    let Some(e) = sh.ctx.resolve(*h) else { continue };
                    let Some(exp) = sh.expect_alive(e) else { continue };
                    let a = ents.is_alive(e);
                    if a != exp {
                        sh.fail(
                            op.uid,
                            &["C10", "C02"],
                            "concurrent-is-alive",
                            format!("Entities::is_alive({:?}) in a task = {}, expected {}", e, a, exp),
                        );
                        return;
                    }
                }
                POpKind::JoinEntities => {
                    let before: Vec<Entity> = {
                        let st = sh.st.lock().unwrap();
                        st.created.iter().map(|x| x.1).collect()
                    };
                    let got: Vec<Entity> = (&*ents).join().collect();
                    // ascending, each index once
                    for w in got.windows(2) {
                        if w[0].id() >= w[1].id() {
                            sh.fail(
                                op.uid,
                                &["C10", "C02"],
                                "concurrent-join",
                                format!("entities join in a task is not strictly ascending: {:?} then {:?}", w[0], w[1]),
                            );
                            return;
                        }
                    }
                    let set: HashSet<(u32, i32)> = got.iter().map(|e| (e.id(), e.gen().id())).collect();
                    for &hn in sh.model.occ.values() {
                        let e = sh.model.hs[hn].ent;
                        if !set.contains(&(e.id(), e.gen().id())) {
                            sh.fail(
                                op.uid,
                                &["C10", "C02"],
                                "concurrent-join",
                                format!("entities join in a task misses {:?}, alive since before the phase", e),
                            );
                            return;
                        }
                    }
                    for e in &before {
                        if !set.contains(&(e.id(), e.gen().id())) {
                            sh.fail(
                                op.uid,
                                &["C10", "C02"],
                                "concurrent-join",
                                format!("entities join in a task misses {:?}, whose creation had already returned", e),
                            );
                            return;
                        }
                    }
                    let mut st = sh.st.lock().unwrap();
                    for e in &got {
                        if sh.model.lookup(*e).map(|hn| sh.model.alive(hn)).unwrap_or(false) {
                            continue;
                        }
                        if st.created_set.contains(&(e.id(), e.gen().id())) {
                            continue;
                        }
                        st.pending_join_items.push((op.uid, *e));
                    }
                    *st.stats.entry("par_join").or_insert(0) += 1;
                }
                POpKind::Get(slot, h) => {
                    let Some(e) = sh.ctx.resolve(*h) else { continue };
                    let exp = match sh.model.lookup(e) {
                        Some(hn) => sh.model.get(*slot as usize, hn),
                        None => None,
                    };
                    let got = slots[*slot as usize].get_read(sh.world, e);
                    if got != exp {
                        sh.fail(
                            op.uid,
                            &["C10", "C03"],
                            "concurrent-get",
                            format!("ReadStorage::get({:?}) in a task = {:?}, expected {:?}", e, got, exp),
                        );
                        return;
                    }
                }
                POpKind::LazyInsert(slot, h, p) => {
                    let Some(e) = sh.ctx.resolve(*h) else { continue };
                    let id = slots[*slot as usize].lazy_insert(&lazy, e, *p);
                    sh.st.lock().unwrap().lazy.push(ParLazy::Insert {
                        slot: *slot,
                        ent: e,
                        v: (id, zp(sh.model, *slot, *p)),
                    });
                }
                POpKind::LazyRemove(slot, h) => {
                    let Some(e) = sh.ctx.resolve(*h) else { continue };
                    slots[*slot as usize].lazy_remove(&lazy, e);
                    sh.st.lock().unwrap().lazy.push(ParLazy::Remove { slot: *slot, ent: e });
                }
                POpKind::LazyExecLog => {
                    let cid = op.uid;
                    let log = sh.ctx.log.clone();
                    lazy.exec(move |_w: &mut World| {
                        log.lock().unwrap().push(LogEntry { cid, obs: vec![] });
                    });
                    sh.st.lock().unwrap().lazy.push(ParLazy::Log { cid });
                }
            }
        }
    })
}

pub fn run_par_phase(ex: &mut Exec, ph: &mut ParPhase) -> R {
    ex.cur_uid = ph.uid;
    ex.stats.par_phases += 1;
    crate::util::probe_mark(&["C10", "C01", "C02"]);
    let slots = ex.slots.clone();
    let (result, st) = {
        let sh = Shared {
            world: ex.world.as_ref().unwrap(),
            model: &ex.model,
            ctx: ex.ctx.clone(),
            st: Mutex::new(ParState::default()),
        };
        let bodies: Vec<TaskBody> = ph
            .tasks
            .iter()
            .map(|ops| task_body(&sh, ops, &slots))
            .collect();
        let result = run_tasks(&ph.baton, ph.recorded.clone(), bodies);
        (result, sh.st.into_inner().unwrap())
    };
    if ph.recorded.is_none() {
        ph.recorded = Some(result.recorded.clone());
    }
    ex.stats.sched_steps += result.stats.steps;
    ex.stats.sched_switches += result.stats.switches;
    ex.stats.sched_hashes.push(result.stats.sched_hash);
    ex.stats.trace.add(result.stats.sched_hash);
    for (k, v) in &result.stats.site_counts {
        *ex.stats.site_counts.entry(k.to_string()).or_insert(0) += v;
    }
    for (k, v) in &result.stats.buggify_fired {
        *ex.stats.buggify_fired.entry(k.to_string()).or_insert(0) += v;
    }
    for (k, v) in &result.stats.probes {
        *ex.stats.probes.entry(k.to_string()).or_insert(0) += v;
    }
    for (k, v) in &st.stats {
        *ex.stats.probes.entry(k.to_string()).or_insert(0) += v;
    }
    if result.stats.capped {
        ex.stats.probe("scheduler_step_cap_hit");
    }
    if let Some(v) = st.violation {
        return Err(v);
    }
    if let Some((task, msg)) = result.panics.first() {
        return Err(ex.viol(
            &["C10"],
            "task-panicked",
            format!(
                "simulated task {} panicked: {} (at {})",
                task,
                msg,
                crate::util::last_panic_location()
            ),
        ));
    }
    // merge the phase into the model
    for (h, e) in &st.created {
        ex.stats.creations += 1;
        ex.stats.trace.add(((e.id() as u64) << 32) | e.gen().id() as u64);
        if e.gen().id() > 1 {
            ex.stats.index_reuses += 1;
        }
        ex.model.add_handle(*e, false, *h);
    }
    for (uid, e) in &st.pending_join_items {
        if ex.model.lookup(*e).is_none() {
            ex.cur_uid = *uid;
            return Err(ex.viol(
                &["C10", "C02"],
                "concurrent-join",
                format!(
                    "entities join in a task yielded {:?}, which is neither alive since before the phase nor a handle any creation returned",
                    e
                ),
            ));
        }
    }
    for e in &st.deletes {
        if let Some(hn) = ex.model.lookup(*e) {
            ex.model.hs[hn].pending_kill = true;
        }
    }
    for l in &st.lazy {
        match l {
            ParLazy::Insert { slot, ent, v } => {
                if let Some(hn) = ex.model.lookup(*ent) {
                    ex.stats.values_created += 1;
                    ex.model.lazy.push_back(LazyAct::Insert {
                        slot: *slot,
                        hn,
                        v: *v,
                    });
                }
            }
            ParLazy::Remove { slot, ent } => {
                if let Some(hn) = ex.model.lookup(*ent) {
                    ex.model.lazy.push_back(LazyAct::Remove { slot: *slot, hn });
                }
            }
            ParLazy::Log { cid } => ex.model.lazy.push_back(LazyAct::ParLog { cid: *cid }),
        }
    }
    ex.c10_window = true;
    ex.post(&["C10", "C05"])
}
