//! E1 worldsim: parallel phases under the baton scheduler. Filled in below.
use crate::wcase::ParPhase;
use crate::wexec::{Exec, R};

pub fn run_par_phase(_ex: &mut Exec, _ph: &mut ParPhase) -> R {
    Ok(())
}
