//! E1 worldsim: the operation language (plain data; what a replay file contains).

use crate::baton::{BatonCfg, Recorded};
use crate::comps::{EntryOp, Kind, OtherMode, RegPath};
use serde::{Deserialize, Serialize};

/// Symbolic handle: "element `k` of the handles returned by the op with uid `op`".
/// Survives minimisation: an op whose operand no longer resolves is skipped.
#[derive(Clone, Copy, Debug, PartialEq, Eq, Hash, Serialize, Deserialize, PartialOrd, Ord)]
pub struct H(pub u32, pub u16);

pub type Comps = Vec<(u8, i64)>;

#[derive(Clone, Copy, Debug, PartialEq, Eq, Serialize, Deserialize)]
pub enum Via {
    /// `Entities::create()`
    Entities,
    /// `Entities::build_entity().with(c, &mut storage)...` (built or dropped)
    BuildEntity,
    /// `LazyUpdate::create_entity(&entities).with(c)....build()`
    LazyBuilder,
}

#[derive(Clone, Copy, Debug, PartialEq, Eq, Serialize, Deserialize)]
pub enum CsConsume {
    /// `(&cs).join()` then drop
    ReadThenDrop,
    /// `(&mut cs).join()` adding to every item, then drop
    MutThenDrop,
    /// `cs.join()` by value, fully
    Full,
    /// `cs.join().take(n)`, rest dropped with the iterator
    Partial(u8),
    Clear,
    Drop,
}

/// What a lazily executed closure does (interpreted inside `maintain`).
#[derive(Clone, Debug, PartialEq, Eq, Serialize, Deserialize)]
pub enum SOp {
    /// `World::is_alive` + `Entities::is_alive` of the given handles
    ObserveAlive(Vec<H>),
    /// `Storage::get` of the given handles
    ObserveComp(u8, Vec<H>),
    /// `(&entities).join()` inside the closure
    ObserveJoin,
    CreateNow(Comps),
    DeleteNow(H),
    CreateDeferred,
    DeleteDeferred(H),
    Insert(u8, H, i64),
    Remove(u8, H),
    /// queue a nested closure (depth is bounded by the generator)
    Queue(Vec<SOp>),
}

#[derive(Clone, Debug, PartialEq, Eq, Serialize, Deserialize)]
pub enum OpKind {
    // ---- lifecycle
    CreateNow(Comps),
    CreateIterNow(u8),
    BuilderDropped(Comps),
    /// a panic unwinds through an unfinished `World::create_entity()` builder (cancellation)
    BuilderUnwound(Comps),
    CreateDeferred { via: Via, comps: Comps, dropped: bool },
    CreateIterDeferred(u8),
    DeleteNow(H),
    DeleteBatch(Vec<H>),
    DeleteDeferred(H),
    DeleteAll,
    Maintain,
    // ---- handle-taking storage access
    Insert { slot: u8, h: H, payload: i64, generic: bool },
    Get { slot: u8, h: H, read: bool },
    GetMut { slot: u8, h: H, touch: bool, write: Option<i64> },
    /// `lend`: through `storage.drain().lend_join().get(e, &entities)` instead of `remove(e)`
    Remove { slot: u8, h: H, #[serde(default)] lend: bool },
    Contains { slot: u8, h: H },
    Entry { slot: u8, h: H, op: EntryOp, payload: i64, write: Option<i64> },
    GetMutOrDefault { slot: u8, h: H, touch: bool, write: Option<i64> },
    LendGet { slot: u8, h: H },
    LendGetMut { slot: u8, h: H, touch: bool, write: Option<i64> },
    // ---- whole-storage access
    Drain { slot: u8, take: u16 },
    Clear { slot: u8 },
    SliceRead { slot: u8 },
    SliceWrite { slot: u8, h: H, payload: i64 },
    JoinMut { slot: u8, lend: bool, take: u16, acts: Vec<(H, bool, Option<i64>)> },
    EntriesOrInsert { slot: u8, payload_base: i64 },
    // ---- restricted storages
    RestrictRead { slot: u8, lend: bool, take: u16, others: Vec<H> },
    RestrictShared { slot: u8, take: u16, acts: Vec<(H, bool, Option<i64>)> },
    RestrictExcl { slot: u8, take: u16, acts: Vec<(H, bool, Option<i64>)>, others: Vec<(H, OtherMode)> },
    // ---- change tracking
    RegisterReader { slot: u8 },
    SetEmission { slot: u8, on: bool },
    // ---- lazy
    LazyInsert { slot: u8, h: H, payload: i64 },
    LazyInsertAll { slot: u8, items: Vec<(H, i64)> },
    LazyRemove { slot: u8, h: H },
    LazyExec { script: Vec<SOp>, mutable: bool },
    // ---- change sets
    ChangeSet { pairs: Vec<(H, i64)>, consume: CsConsume },
    /// `entry_inner(2^24).or_insert(value)`: the mask update unwinds after the raw insert
    EntryHuge { slot: u8, payload: i64 },
    /// the wrapped handle-taking op (insert via the generic trait, get via a read storage,
    /// get_mut, get_mut_or_default) goes through the by-reference generic-storage overloads
    ByRef(Box<OpKind>),
    // ---- observation only
    Observe,
}

/// Destructor fault attached to an op (C19 configuration): the `k`-th (mod n) of the values the
/// reference model expects this op to destroy, in ascending id order, panics in its destructor.
#[derive(Clone, Copy, Debug, PartialEq, Eq, Serialize, Deserialize)]
pub struct Fault {
    pub k: u16,
}

#[derive(Clone, Debug, PartialEq, Eq, Serialize, Deserialize)]
pub struct Op {
    pub uid: u32,
    pub kind: OpKind,
    #[serde(default, skip_serializing_if = "Option::is_none")]
    pub fault: Option<Fault>,
}

/// Operations available to a simulated task in a parallel phase (shared access only).
#[derive(Clone, Debug, PartialEq, Eq, Serialize, Deserialize)]
pub enum POpKind {
    Create,
    CreateIter(u8),
    BuildEntity { comps_none: bool, dropped: bool },
    LazyCreate { comps: Comps },
    Delete(H),
    IsAlive(H),
    JoinEntities,
    Get(u8, H),
    LazyInsert(u8, H, i64),
    LazyRemove(u8, H),
    LazyExecLog,
}

#[derive(Clone, Debug, PartialEq, Eq, Serialize, Deserialize)]
pub struct POp {
    pub uid: u32,
    pub kind: POpKind,
}

#[derive(Clone, Debug, Serialize, Deserialize)]
pub struct ParPhase {
    pub uid: u32,
    pub tasks: Vec<Vec<POp>>,
    pub baton: BatonCfg,
    /// explicit decisions; `None` = derive them from `baton.seed`
    #[serde(default, skip_serializing_if = "Option::is_none")]
    pub recorded: Option<Recorded>,
}

#[derive(Clone, Debug, Serialize, Deserialize)]
pub enum Step {
    Op(Op),
    Par(ParPhase),
}

#[derive(Clone, Debug, Serialize, Deserialize)]
pub struct WCfg {
    pub slots: Vec<(Kind, RegPath)>,
    /// width knob: pre-allocate this many entities and delete all but every `keep_every`-th
    pub prealloc: u32,
    pub keep_every: u32,
    /// destructor-fault configuration (C19): relaxed, narrowly re-synchronised oracle
    pub faults: bool,
    /// how many of the pre-allocated entities stay alive at most (0 = default 160)
    #[serde(default)]
    pub keep_cap: u32,
}

#[derive(Clone, Debug, Serialize, Deserialize)]
pub struct Expect {
    pub props: Vec<String>,
    pub oracle: String,
}

#[derive(Clone, Debug, Serialize, Deserialize)]
pub struct WCase {
    pub profile: String,
    pub seed: u64,
    pub cfg: WCfg,
    pub steps: Vec<Step>,
    /// C19: inject a destructor fault while the world is dropped (k-th value in the world)
    #[serde(default, skip_serializing_if = "Option::is_none")]
    pub final_fault: Option<u16>,
}
