//! E4 savesim: marker / save-load histories with stream faults (C15; feeds C01).
//!
//! Two worlds, three serialisable component types (one of them holding entity references mapped
//! through markers), `SimpleMarker`. After every step the worlds are observed through
//! `(entities, markers).join()` and per-entity lookups; each operation's oracle is a relation between
//! the observation before, the operation (for loads: the parsed data) and the observation after.

use crate::engine::{ddmin, Engine, Report, Viol};
use crate::rng::{mix, Rng, TraceHash};
use serde::{Deserialize, Serialize};
use specs::prelude::*;
use specs::saveload::{
    ConvertSaveload, DeserializeComponents, EntityData, MarkedBuilder, Marker, MarkerAllocator,
    SerializeComponents, SimpleMarker, SimpleMarkerAllocator,
};
use std::collections::{BTreeMap, BTreeSet, HashMap, HashSet};
use std::convert::Infallible;
use std::fmt;
use std::panic::{catch_unwind, AssertUnwindSafe};

pub struct Tag;
type M = SimpleMarker<Tag>;
type MA = SimpleMarkerAllocator<Tag>;

#[derive(Clone, Debug, PartialEq, Eq, Serialize, Deserialize)]
pub struct P(pub i64);
impl Component for P {
    type Storage = VecStorage<Self>;
}

#[derive(Clone, Debug, PartialEq, Eq, Serialize, Deserialize)]
pub struct Q(pub String);
impl Component for Q {
    type Storage = DenseVecStorage<Self>;
}

#[derive(Clone, Debug, PartialEq, Eq)]
pub struct Link {
    pub to: Entity,
    pub also: Vec<Entity>,
}
impl Component for Link {
    type Storage = HashMapStorage<Self>;
}

#[derive(Clone, Debug, Serialize, Deserialize)]
pub struct LinkData {
    pub to: M,
    pub also: Vec<M>,
}

#[derive(Debug)]
pub enum SaveErr {
    NoMarker,
}
impl fmt::Display for SaveErr {
    fn fmt(&self, f: &mut fmt::Formatter) -> fmt::Result {
        write!(f, "referenced entity has no marker")
    }
}
impl From<Infallible> for SaveErr {
    fn from(e: Infallible) -> Self {
        match e {}
    }
}

impl ConvertSaveload<M> for Link {
    type Data = LinkData;
    type Error = SaveErr;
    fn convert_from<F>(data: LinkData, mut ids: F) -> Result<Self, SaveErr>
    where
        F: FnMut(M) -> Option<Entity>,
    {
        let to = ids(data.to).ok_or(SaveErr::NoMarker)?;
        let mut also = vec![];
        for m in data.also {
            also.push(ids(m).ok_or(SaveErr::NoMarker)?);
        }
        Ok(Link { to, also })
    }
    fn convert_into<F>(&self, mut ids: F) -> Result<LinkData, SaveErr>
    where
        F: FnMut(Entity) -> Option<M>,
    {
        let to = ids(self.to).ok_or(SaveErr::NoMarker)?;
        let mut also = vec![];
        for e in &self.also {
            also.push(ids(*e).ok_or(SaveErr::NoMarker)?);
        }
        Ok(LinkData { to, also })
    }
}

type Comps = (Option<P>, Option<Q>, Option<LinkData>);

// ------------------------------------------------------------------------------------------------
// operation language

#[derive(Clone, Copy, Debug, PartialEq, Eq, Hash, Serialize, Deserialize, PartialOrd, Ord)]
pub struct H(pub u32, pub u16);

#[derive(Clone, Copy, Debug, PartialEq, Eq, Serialize, Deserialize)]
pub enum Fmt {
    Json,
    Ron,
}

#[derive(Clone, Copy, Debug, PartialEq, Eq, Serialize, Deserialize)]
pub enum StreamFault {
    /// the data is cut at this permille of its length
    Truncate(u16),
    /// one byte (at this permille) is replaced
    Corrupt(u16, u8),
}

#[derive(Clone, Debug, PartialEq, Eq, Serialize, Deserialize)]
pub enum OpK {
    Create { p: Option<i64>, q: Option<String>, link: Option<(H, Vec<H>)>, marked: bool, lazy: bool },
    Mark(H),
    Delete { h: H, deferred: bool },
    SetLink { h: H, link: (H, Vec<H>) },
    SetP { h: H, p: Option<i64> },
    Maintain,
    AllocMaintain,
    Save { recursive: bool, fmt: Fmt, fail_writer_at: Option<u16> },
    /// load blob number `blob % pool_len`
    Load { blob: u16, fault: Option<StreamFault> },
}

#[derive(Clone, Debug, PartialEq, Eq, Serialize, Deserialize)]
pub struct SOp {
    pub uid: u32,
    /// which of the two worlds
    pub w: u8,
    pub k: OpK,
}

#[derive(Clone, Debug, Serialize, Deserialize)]
pub struct SCase {
    pub seed: u64,
    pub ops: Vec<SOp>,
}

// ------------------------------------------------------------------------------------------------
// observation

#[derive(Clone, Debug, PartialEq, Eq)]
pub struct Rec {
    pub marker: Option<u64>,
    pub p: Option<i64>,
    pub q: Option<String>,
    pub link: Option<(Entity, Vec<Entity>)>,
}

pub type Snap = BTreeMap<Entity, Rec>;

fn snapshot(w: &World) -> Snap {
    let ents = w.entities();
    let ms = w.read_storage::<M>();
    let ps = w.read_storage::<P>();
    let qs = w.read_storage::<Q>();
    let ls = w.read_storage::<Link>();
    let mut s = Snap::new();
    for e in (&ents).join() {
        s.insert(
            e,
            Rec {
                marker: ms.get(e).map(|m| m.id()),
                p: ps.get(e).map(|p| p.0),
                q: qs.get(e).map(|q| q.0.clone()),
                link: ls.get(e).map(|l| (l.to, l.also.clone())),
            },
        );
    }
    s
}

fn carriers(s: &Snap) -> BTreeMap<u64, Vec<Entity>> {
    let mut m: BTreeMap<u64, Vec<Entity>> = BTreeMap::new();
    for (e, r) in s {
        if let Some(id) = r.marker {
            m.entry(id).or_default().push(*e);
        }
    }
    m
}

struct FailingWriter {
    buf: Vec<u8>,
    limit: usize,
}
impl std::io::Write for FailingWriter {
    fn write(&mut self, b: &[u8]) -> std::io::Result<usize> {
        if self.buf.len() + b.len() > self.limit {
            return Err(std::io::Error::new(std::io::ErrorKind::Other, "injected write error"));
        }
        self.buf.extend_from_slice(b);
        Ok(b.len())
    }
    fn flush(&mut self) -> std::io::Result<()> {
        Ok(())
    }
}

fn new_world() -> World {
    let mut w = World::new();
    w.register::<P>();
    w.register::<Q>();
    w.register::<Link>();
    w.register::<M>();
    w.insert(MA::new());
    w
}

fn save(w: &World, recursive: bool, f: Fmt, limit: Option<usize>) -> Result<Vec<u8>, String> {
    let ents = w.entities();
    let ps = w.read_storage::<P>();
    let qs = w.read_storage::<Q>();
    let ls = w.read_storage::<Link>();
    let mut wr = FailingWriter {
        buf: vec![],
        limit: limit.unwrap_or(usize::MAX),
    };
    let r: Result<(), String> = match (f, recursive) {
        (Fmt::Json, false) => {
            let ms = w.read_storage::<M>();
            let mut ser = serde_json::Serializer::new(&mut wr);
            SerializeComponents::<SaveErr, M>::serialize(&(&ps, &qs, &ls), &ents, &ms, &mut ser)
                .map(|_| ())
                .map_err(|e| e.to_string())
        }
        (Fmt::Json, true) => {
            let mut ms = w.write_storage::<M>();
            let mut alloc = w.write_resource::<MA>();
            let mut ser = serde_json::Serializer::new(&mut wr);
            SerializeComponents::<SaveErr, M>::serialize_recursive(&(&ps, &qs, &ls), &ents, &mut ms, &mut alloc, &mut ser)
                .map(|_| ())
                .map_err(|e| e.to_string())
        }
        (Fmt::Ron, false) => {
            let ms = w.read_storage::<M>();
            match ron::ser::Serializer::new(&mut wr, None) {
                Ok(mut ser) => SerializeComponents::<SaveErr, M>::serialize(&(&ps, &qs, &ls), &ents, &ms, &mut ser)
                    .map(|_| ())
                    .map_err(|e| e.to_string()),
                Err(e) => Err(e.to_string()),
            }
        }
        (Fmt::Ron, true) => {
            let mut ms = w.write_storage::<M>();
            let mut alloc = w.write_resource::<MA>();
            match ron::ser::Serializer::new(&mut wr, None) {
                Ok(mut ser) => SerializeComponents::<SaveErr, M>::serialize_recursive(&(&ps, &qs, &ls), &ents, &mut ms, &mut alloc, &mut ser)
                    .map(|_| ())
                    .map_err(|e| e.to_string()),
                Err(e) => Err(e.to_string()),
            }
        }
    };
    r.map(|_| wr.buf)
}

fn load(w: &World, data: &[u8], f: Fmt) -> Result<(), String> {
    let ents = w.entities();
    let ps = w.write_storage::<P>();
    let qs = w.write_storage::<Q>();
    let ls = w.write_storage::<Link>();
    let mut ms = w.write_storage::<M>();
    let mut alloc = w.write_resource::<MA>();
    let mut storages = (ps, qs, ls);
    match f {
        Fmt::Json => {
            let mut de = serde_json::Deserializer::from_slice(data);
            DeserializeComponents::<SaveErr, M>::deserialize(&mut storages, &ents, &mut ms, &mut alloc, &mut de)
                .map_err(|e| e.to_string())
        }
        Fmt::Ron => match ron::de::Deserializer::from_bytes(data) {
            Ok(mut de) => DeserializeComponents::<SaveErr, M>::deserialize(&mut storages, &ents, &mut ms, &mut alloc, &mut de)
                .map_err(|e| e.to_string()),
            Err(e) => Err(e.to_string()),
        },
    }
}

/// what the data says, parsed independently of the loader
#[derive(Clone, Debug)]
struct BlobRec {
    id: u64,
    p: Option<i64>,
    q: Option<String>,
    link: Option<(u64, Vec<u64>)>,
}

fn parse_blob(data: &[u8], f: Fmt) -> Option<Vec<BlobRec>> {
    let v: Vec<EntityData<M, Comps>> = match f {
        Fmt::Json => serde_json::from_slice(data).ok()?,
        Fmt::Ron => ron::de::from_bytes(data).ok()?,
    };
    Some(
        v.into_iter()
            .map(|d| BlobRec {
                id: d.marker.id(),
                p: d.components.0.map(|p| p.0),
                q: d.components.1.map(|q| q.0),
                link: d.components.2.map(|l| (l.to.id(), l.also.iter().map(|m| m.id()).collect())),
            })
            .collect(),
    )
}

#[derive(Default, Clone, Debug)]
pub struct SStats {
    pub ops: u64,
    pub skipped: u64,
    pub saves_ok: u64,
    pub saves_err: u64,
    pub loads_ok: u64,
    pub loads_err: u64,
    pub loads_into_populated: u64,
    pub loads_repeated: u64,
    pub loads_cross_world: u64,
    pub loads_ids_above_counter: u64,
    pub updated_in_place: u64,
    pub created_by_load: u64,
    pub marks_existing: u64,
    pub marks_new: u64,
    pub fault_truncate: u64,
    pub fault_corrupt: u64,
    pub fault_corrupt_still_parsed: u64,
    pub fault_writer: u64,
    pub stale_mapping_loads: u64,
    pub maintains: u64,
}

pub struct SOut {
    pub violation: Option<Viol>,
    pub stats: SStats,
    pub trace: u64,
}

struct Blob {
    data: Vec<u8>,
    fmt: Fmt,
    from: u8,
    loaded_into: HashSet<u8>,
}

struct Sim {
    worlds: Vec<World>,
    handles: Vec<HashMap<H, Entity>>,
    ever: Vec<HashSet<Entity>>,
    /// marker ids whose carrier died without `allocator.maintain` since (stale mapping entries)
    stale_ids: Vec<BTreeSet<u64>>,
    snaps: Vec<Snap>,
    blobs: Vec<Blob>,
    stats: SStats,
    th: TraceHash,
}

fn v(props: &[&str], oracle: &str, detail: String) -> Viol {
    Viol {
        props: props.iter().map(|s| s.to_string()).collect(),
        oracle: oracle.into(),
        detail,
    }
}

impl Sim {
    fn new() -> Sim {
        Sim {
            worlds: vec![new_world(), new_world()],
            handles: vec![HashMap::new(), HashMap::new()],
            ever: vec![HashSet::new(), HashSet::new()],
            stale_ids: vec![BTreeSet::new(), BTreeSet::new()],
            snaps: vec![Snap::new(), Snap::new()],
            blobs: vec![],
            stats: SStats::default(),
            th: TraceHash::default(),
        }
    }

    fn res(&self, w: usize, h: H) -> Option<Entity> {
        self.handles[w].get(&h).copied()
    }

    fn res_link(&self, w: usize, l: &(H, Vec<H>)) -> Option<(Entity, Vec<Entity>)> {
        let to = self.res(w, l.0)?;
        let also: Vec<Entity> = l.1.iter().filter_map(|h| self.res(w, *h)).collect();
        Some((to, also))
    }

    /// observation + invariants after a step; binds new entities to `H(uid, k)` in index order
    fn observe(&mut self, w: usize, uid: u32) -> Result<(Snap, Vec<Entity>), Viol> {
        let after = snapshot(&self.worlds[w]);
        for (id, es) in carriers(&after) {
            if es.len() > 1 {
                return Err(v(
                    &["C15"],
                    "marker-ids-unique",
                    format!("world {}: live entities {:?} all carry marker id {}", w, es, id),
                ));
            }
        }
        let before = &self.snaps[w];
        // a live entity's marker is never replaced or lost: marking keeps an existing marker and a
        // load updates a carrier in place under the same id
        for (e, b) in before.iter() {
            if let (Some(old), Some(a)) = (b.marker, after.get(e)) {
                if a.marker != Some(old) {
                    return Err(v(
                        &["C15"],
                        "marker-stable",
                        format!(
                            "world {}: live entity {:?} carried marker id {} before this step and carries {:?} after it",
                            w, e, old, a.marker
                        ),
                    ));
                }
            }
        }
        let mut new = vec![];
        for e in after.keys() {
            if !before.contains_key(e) {
                if self.ever[w].contains(e) {
                    return Err(v(
                        &["C01", "C15"],
                        "new-handle-unique",
                        format!("world {}: entity handle {:?} appeared again after it had died", w, e),
                    ));
                }
                new.push(*e);
            }
        }
        let mut k = 0u16;
        for e in &new {
            self.ever[w].insert(*e);
            self.handles[w].insert(H(uid, k), *e);
            k += 1;
            self.th.add(((e.id() as u64) << 32) | e.gen().id() as u64);
        }
        // carriers that disappeared leave a stale entry in the allocator's mapping
        for (e, r) in before.iter() {
            if let Some(id) = r.marker {
                if !after.contains_key(e) {
                    self.stale_ids[w].insert(id);
                }
            }
        }
        Ok((after, new))
    }

    fn unchanged_except(&self, w: usize, after: &Snap, except: &[Entity], what: &str) -> Result<(), Viol> {
        for (e, r) in &self.snaps[w] {
            if except.contains(e) {
                continue;
            }
            match after.get(e) {
                Some(a) if a == r => {}
                other => {
                    return Err(v(
                        &["C15"],
                        "untouched-entities",
                        format!("world {}: {} changed entity {:?} from {:?} to {:?}", w, what, e, r, other),
                    ))
                }
            }
        }
        Ok(())
    }

    fn step(&mut self, op: &SOp) -> Result<(), Viol> {
        let w = (op.w & 1) as usize;
        self.stats.ops += 1;
        match &op.k {
            OpK::Create { p, q, link, marked, lazy } => {
                let l = match link {
                    Some(l) => match self.res_link(w, l) {
                        Some(x) => Some(x),
                        None => None,
                    },
                    None => None,
                };
                let world = &mut self.worlds[w];
                if *lazy {
                    let ents = world.entities();
                    let lz = world.read_resource::<LazyUpdate>();
                    let mut b = lz.create_entity(&ents);
                    if let Some(p) = p {
                        b = b.with(P(*p));
                    }
                    if let Some(q) = q {
                        b = b.with(Q(q.clone()));
                    }
                    if let Some((to, also)) = l {
                        b = b.with(Link { to, also });
                    }
                    if *marked {
                        b = b.marked::<M>();
                    }
                    b.build();
                } else {
                    let mut b = world.create_entity();
                    if let Some(p) = p {
                        b = b.with(P(*p));
                    }
                    if let Some(q) = q {
                        b = b.with(Q(q.clone()));
                    }
                    if let Some((to, also)) = l {
                        b = b.with(Link { to, also });
                    }
                    if *marked {
                        b = b.marked::<M>();
                    }
                    b.build();
                }
                let (after, new) = self.observe(w, op.uid)?;
                self.unchanged_except(w, &after, &[], "entity creation")?;
                if new.len() != 1 {
                    return Err(v(&["C15"], "harness", format!("creation produced {} entities", new.len())));
                }
                self.snaps[w] = after;
            }
            OpK::Mark(h) => {
                let Some(e) = self.res(w, *h) else { self.stats.skipped += 1; return Ok(()) };
                let before = self.snaps[w].get(&e).cloned();
                let got: Option<(u64, bool)> = {
                    let world = &self.worlds[w];
                    let mut alloc = world.write_resource::<MA>();
                    let mut ms = world.write_storage::<M>();
                    let r = alloc.mark(e, &mut ms).map(|(m, new)| (m.id(), new));
                    r
                };
                let (after, _) = self.observe(w, op.uid)?;
                match (&before, got) {
                    (None, None) => {}
                    (None, Some(g)) => {
                        return Err(v(&["C15"], "mark-result", format!("marking dead entity {:?} returned {:?}", e, g)))
                    }
                    (Some(_), None) => {
                        return Err(v(&["C15"], "mark-result", format!("marking live entity {:?} returned nothing", e)))
                    }
                    (Some(r), Some((id, new))) => match r.marker {
                        Some(old) => {
                            self.stats.marks_existing += 1;
                            if id != old || new {
                                return Err(v(
                                    &["C15"],
                                    "mark-keeps-existing",
                                    format!("marking {:?}, already marked with id {}, returned id {} (new = {})", e, old, id, new),
                                ));
                            }
                        }
                        None => {
                            self.stats.marks_new += 1;
                            if !new {
                                return Err(v(&["C15"], "mark-result", format!("marking unmarked {:?} reported an existing marker {}", e, id)));
                            }
                        }
                    },
                }
                if let Some(a) = after.get(&e) {
                    if let Some((id, _)) = got {
                        if a.marker != Some(id) {
                            return Err(v(&["C15"], "mark-result", format!("after mark, {:?} carries {:?}, mark returned {}", e, a.marker, id)));
                        }
                    }
                }
                self.unchanged_except(w, &after, &[e], "mark")?;
                self.snaps[w] = after;
            }
            OpK::Delete { h, deferred } => {
                let Some(e) = self.res(w, *h) else { self.stats.skipped += 1; return Ok(()) };
                if *deferred {
                    let _ = self.worlds[w].entities().delete(e);
                } else {
                    let _ = self.worlds[w].delete_entity(e);
                }
                let (after, _) = self.observe(w, op.uid)?;
                self.unchanged_except(w, &after, &[e], "entity deletion")?;
                self.snaps[w] = after;
            }
            OpK::SetLink { h, link } => {
                let Some(e) = self.res(w, *h) else { self.stats.skipped += 1; return Ok(()) };
                let Some((to, also)) = self.res_link(w, link) else { self.stats.skipped += 1; return Ok(()) };
                let _ = self.worlds[w].write_storage::<Link>().insert(e, Link { to, also });
                let (after, _) = self.observe(w, op.uid)?;
                self.unchanged_except(w, &after, &[e], "component insertion")?;
                self.snaps[w] = after;
            }
            OpK::SetP { h, p } => {
                let Some(e) = self.res(w, *h) else { self.stats.skipped += 1; return Ok(()) };
                match p {
                    Some(p) => {
                        let _ = self.worlds[w].write_storage::<P>().insert(e, P(*p));
                    }
                    None => {
                        self.worlds[w].write_storage::<P>().remove(e);
                    }
                }
                let (after, _) = self.observe(w, op.uid)?;
                self.unchanged_except(w, &after, &[e], "component change")?;
                self.snaps[w] = after;
            }
            OpK::Maintain => {
                self.stats.maintains += 1;
                self.worlds[w].maintain();
                let (after, _) = self.observe(w, op.uid)?;
                self.snaps[w] = after;
            }
            OpK::AllocMaintain => {
                {
                    let world = &self.worlds[w];
                    let ents = world.entities();
                    let ms = world.read_storage::<M>();
                    let mut alloc = world.write_resource::<MA>();
                    alloc.maintain(&ents, &ms);
                }
                self.stale_ids[w].clear();
                let (after, _) = self.observe(w, op.uid)?;
                self.unchanged_except(w, &after, &[], "allocator maintenance")?;
                self.snaps[w] = after;
            }
            OpK::Save { recursive, fmt, fail_writer_at } => {
                let limit = fail_writer_at.map(|x| x as usize);
                if limit.is_some() {
                    self.stats.fault_writer += 1;
                }
                let r = save(&self.worlds[w], *recursive, *fmt, limit);
                let (after, _) = self.observe(w, op.uid)?;
                if !*recursive {
                    self.unchanged_except(w, &after, &[], "plain serialisation")?;
                } else {
                    // the recursive serialiser may only add markers
                    for (e, b) in &self.snaps[w] {
                        let a = after.get(e);
                        let ok = match a {
                            Some(a) => {
                                a.p == b.p && a.q == b.q && a.link == b.link && (a.marker == b.marker || (b.marker.is_none() && a.marker.is_some()))
                            }
                            None => false,
                        };
                        if !ok {
                            return Err(v(
                                &["C15"],
                                "untouched-entities",
                                format!("world {}: recursive serialisation changed {:?} from {:?} to {:?}", w, e, b, a),
                            ));
                        }
                    }
                }
                match r {
                    Ok(data) => {
                        self.stats.saves_ok += 1;
                        for b in &data {
                            self.th.add(*b as u64);
                        }
                        self.blobs.push(Blob {
                            data,
                            fmt: *fmt,
                            from: w as u8,
                            loaded_into: HashSet::new(),
                        });
                    }
                    Err(_) => self.stats.saves_err += 1,
                }
                self.snaps[w] = after;
            }
            OpK::Load { blob, fault } => {
                if self.blobs.is_empty() {
                    self.stats.skipped += 1;
                    return Ok(());
                }
                let bi = *blob as usize % self.blobs.len();
                let mut data = self.blobs[bi].data.clone();
                let fmt = self.blobs[bi].fmt;
                match fault {
                    Some(StreamFault::Truncate(pm)) => {
                        self.stats.fault_truncate += 1;
                        let n = data.len() * (*pm as usize % 1000) / 1000;
                        data.truncate(n);
                    }
                    Some(StreamFault::Corrupt(pm, b)) => {
                        self.stats.fault_corrupt += 1;
                        if !data.is_empty() {
                            let n = (data.len() * (*pm as usize % 1000) / 1000).min(data.len() - 1);
                            data[n] = *b;
                        }
                    }
                    None => {}
                }
                let parsed = parse_blob(&data, fmt);
                let before = self.snaps[w].clone();
                let before_car = carriers(&before);
                let r = load(&self.worlds[w], &data, fmt);
                let (after, new) = self.observe(w, op.uid)?;
                match (&r, &parsed) {
                    (Ok(()), Some(recs)) => {
                        self.stats.loads_ok += 1;
                        if fault.is_some() {
                            self.stats.fault_corrupt_still_parsed += 1;
                        }
                        if !before.is_empty() {
                            self.stats.loads_into_populated += 1;
                        }
                        if self.blobs[bi].loaded_into.contains(&(w as u8)) {
                            self.stats.loads_repeated += 1;
                        }
                        if self.blobs[bi].from != w as u8 {
                            self.stats.loads_cross_world += 1;
                        }
                        self.blobs[bi].loaded_into.insert(w as u8);
                        let max_before = before_car.keys().max().copied();
                        if let (Some(mb), Some(mx)) = (max_before, recs.iter().map(|r| r.id).max()) {
                            if mx > mb {
                                self.stats.loads_ids_above_counter += 1;
                            }
                        } else if max_before.is_none() && !recs.is_empty() {
                            self.stats.loads_ids_above_counter += 1;
                        }
                        if recs.iter().any(|r| self.stale_ids[w].contains(&r.id)) {
                            self.stats.stale_mapping_loads += 1;
                        }
                        self.check_merge(w, &before, &before_car, recs, &after, &new)?;
                    }
                    (Ok(()), None) => {
                        // the loader accepted data our independent parse rejects: only invariants
                        self.stats.loads_ok += 1;
                    }
                    (Err(_), _) => {
                        self.stats.loads_err += 1;
                        if fault.is_none() && parsed.is_some() {
                            return Err(v(
                                &["C15"],
                                "load-result",
                                format!("world {}: loading well-formed data failed: {:?}", w, r),
                            ));
                        }
                    }
                }
                self.snaps[w] = after;
            }
        }
        Ok(())
    }

    fn check_merge(
        &mut self,
        w: usize,
        before: &Snap,
        before_car: &BTreeMap<u64, Vec<Entity>>,
        recs: &[BlobRec],
        after: &Snap,
        new: &[Entity],
    ) -> Result<(), Viol> {
        let after_car = carriers(after);
        let mut mentioned: BTreeSet<u64> = BTreeSet::new();
        for r in recs {
            mentioned.insert(r.id);
            if let Some((to, also)) = &r.link {
                mentioned.insert(*to);
                mentioned.extend(also.iter().copied());
            }
        }
        // one live carrier per mentioned id; the pre-existing carrier if there was one
        for id in &mentioned {
            let car = match after_car.get(id) {
                Some(es) if es.len() == 1 => es[0],
                other => {
                    return Err(v(
                        &["C15"],
                        "load-one-carrier-per-marker",
                        format!("world {}: after the load marker id {} is carried by {:?}", w, id, other),
                    ))
                }
            };
            match before_car.get(id) {
                Some(prev) => {
                    self.stats.updated_in_place += 1;
                    if prev[0] != car {
                        return Err(v(
                            &["C15"],
                            "load-updates-in-place",
                            format!(
                                "world {}: marker id {} was carried by live {:?} before the load, afterwards by {:?} (a duplicate / replacement was created instead of updating in place)",
                                w, id, prev[0], car
                            ),
                        ));
                    }
                }
                None => {
                    self.stats.created_by_load += 1;
                    if !new.contains(&car) {
                        return Err(v(
                            &["C15"],
                            "load-creates-for-unknown",
                            format!("world {}: unknown marker id {} was attached to pre-existing entity {:?}", w, id, car),
                        ));
                    }
                }
            }
        }
        // entities created by the load are exactly the carriers of previously unknown ids
        let unknown = mentioned.iter().filter(|id| !before_car.contains_key(id)).count();
        if new.len() != unknown {
            return Err(v(
                &["C15"],
                "load-creates-for-unknown",
                format!("world {}: the load created {} entities for {} previously unknown marker ids", w, new.len(), unknown),
            ));
        }
        // component values of the records (the last record of an id wins)
        let mut last: BTreeMap<u64, &BlobRec> = BTreeMap::new();
        for r in recs {
            last.insert(r.id, r);
        }
        for (id, r) in &last {
            let car = after_car[id][0];
            let a = &after[&car];
            let exp_link = r.link.as_ref().map(|(to, also)| {
                (after_car[to][0], also.iter().map(|x| after_car[x][0]).collect::<Vec<Entity>>())
            });
            if a.p != r.p || a.q != r.q || a.link != exp_link {
                return Err(v(
                    &["C15"],
                    "load-component-values",
                    format!(
                        "world {}: after the load the carrier {:?} of marker {} has (P {:?}, Q {:?}, Link {:?}); the data says (P {:?}, Q {:?}, Link {:?} = markers {:?})",
                        w, car, id, a.p, a.q, a.link, r.p, r.q, exp_link, r.link
                    ),
                ));
            }
        }
        // everything else is untouched
        let touched: Vec<Entity> = last.keys().map(|id| after_car[id][0]).collect();
        for (e, b) in before {
            if touched.contains(e) {
                continue;
            }
            // an entity that is only *referenced* keeps everything
            if after.get(e) != Some(b) {
                return Err(v(
                    &["C15"],
                    "untouched-entities",
                    format!("world {}: the load changed {:?}, whose marker is not a record of the data, from {:?} to {:?}", w, e, b, after.get(e)),
                ));
            }
        }
        let marked_after = after.values().filter(|r| r.marker.is_some()).count();
        let mut ids: BTreeSet<u64> = before_car.keys().copied().collect();
        ids.extend(mentioned.iter().copied());
        if marked_after != ids.len() {
            return Err(v(
                &["C15"],
                "load-marked-count",
                format!("world {}: {} live marked entities after the load, expected |previous ∪ data| = {}", w, marked_after, ids.len()),
            ));
        }
        Ok(())
    }
}

pub fn run_case(c: &SCase) -> SOut {
    crate::util::probe_mark(&["C15"]);
    let mut sim = Sim::new();
    let mut violation = None;
    for op in &c.ops {
        let r = catch_unwind(AssertUnwindSafe(|| sim.step(op)));
        match r {
            Ok(Ok(())) => {}
            Ok(Err(vv)) => {
                violation = Some(Viol {
                    detail: format!("{} [at op uid {}: {:?}]", vv.detail, op.uid, op.k),
                    ..vv
                });
                break;
            }
            Err(e) => {
                let msg = crate::util::panic_message(&e);
                // the plain Entity conversion unwraps; our Link conversion returns Err instead, so
                // no panic is expected anywhere
                violation = Some(v(
                    &["C15"],
                    "panic-escaped",
                    format!("operation {:?} panicked: {} (at {})", op.k, msg, crate::util::last_panic_location()),
                ));
                break;
            }
        }
        for w in 0..2 {
            sim.th.add(sim.snaps[w].len() as u64);
        }
    }
    SOut {
        violation,
        stats: sim.stats.clone(),
        trace: sim.th.0,
    }
}

// ------------------------------------------------------------------------------------------------
// generation (needs the evolving handle tables, so it executes while generating)

pub fn gen_case(seed: u64) -> SCase {
    let mut r = Rng::new(mix(&[seed, 0x5A7E]));
    let mut sim = Sim::new();
    let n = r.range(4, 40) as usize;
    let mut ops: Vec<SOp> = vec![];
    let mut uid = 1u32;
    for _ in 0..n {
        let w = if r.chance(2, 3) { 0u8 } else { 1u8 };
        let wi = w as usize;
        let live: Vec<H> = {
            let snap = &sim.snaps[wi];
            let mut v: Vec<H> = sim.handles[wi]
                .iter()
                .filter(|(_, e)| snap.contains_key(e))
                .map(|(h, _)| *h)
                .collect();
            v.sort();
            v
        };
        let marked_live: Vec<H> = live
            .iter()
            .copied()
            .filter(|h| sim.snaps[wi][&sim.handles[wi][h]].marker.is_some())
            .collect();
        let any: Vec<H> = {
            let mut v: Vec<H> = sim.handles[wi].keys().copied().collect();
            v.sort();
            v
        };
        let pick_link = |r: &mut Rng| -> Option<(H, Vec<H>)> {
            // references mostly to marked live entities (the plain serialiser's contract),
            // sometimes to unmarked ones (the recursive serialiser marks them)
            let pool = if !marked_live.is_empty() && r.chance(4, 5) { &marked_live } else { &live };
            if pool.is_empty() {
                return None;
            }
            let to = *r.pick(pool);
            let mut also = vec![];
            for _ in 0..r.below(3) {
                also.push(*r.pick(pool));
            }
            Some((to, also))
        };
        let k = match r.below(100) {
            0..=21 => OpK::Create {
                p: if r.chance(2, 3) { Some(r.range(1, 999) as i64) } else { None },
                q: if r.chance(1, 2) { Some(format!("q{}", r.below(50))) } else { None },
                link: if r.chance(1, 3) { pick_link(&mut r) } else { None },
                marked: r.chance(3, 4),
                lazy: r.chance(1, 5),
            },
            22..=29 => match any.is_empty() {
                false => OpK::Mark(*r.pick(&any)),
                true => OpK::Maintain,
            },
            30..=41 => match live.is_empty() {
                false => OpK::Delete { h: *r.pick(&live), deferred: r.chance(1, 3) },
                true => OpK::Maintain,
            },
            42..=47 => match (live.is_empty(), pick_link(&mut r)) {
                (false, Some(l)) => OpK::SetLink { h: *r.pick(&live), link: l },
                _ => OpK::Maintain,
            },
            48..=52 => match live.is_empty() {
                false => OpK::SetP { h: *r.pick(&live), p: if r.chance(2, 3) { Some(r.range(1, 999) as i64) } else { None } },
                true => OpK::Maintain,
            },
            53..=62 => OpK::Maintain,
            63..=68 => OpK::AllocMaintain,
            69..=80 => OpK::Save {
                recursive: r.chance(1, 3),
                fmt: if r.chance(3, 4) { Fmt::Json } else { Fmt::Ron },
                fail_writer_at: if r.chance(1, 10) { Some(r.range(0, 120) as u16) } else { None },
            },
            _ => OpK::Load {
                blob: r.below(64) as u16,
                fault: match r.below(10) {
                    0 => Some(StreamFault::Truncate(r.below(1000) as u16)),
                    1 => Some(StreamFault::Corrupt(r.below(1000) as u16, *r.pick(&[b'0', b'9', b',', b'}', b' ', b'"']))),
                    _ => None,
                },
            },
        };
        let op = SOp { uid, w, k };
        uid += 1;
        ops.push(op.clone());
        let r2 = catch_unwind(AssertUnwindSafe(|| sim.step(&op)));
        if !matches!(r2, Ok(Ok(()))) {
            break;
        }
    }
    SCase { seed, ops }
}

pub struct SaveSim;

fn report(c: &SCase, o: SOut, want: bool) -> Report {
    let mut counters = BTreeMap::new();
    let s = &o.stats;
    for (k, val) in [
        ("ops", s.ops),
        ("ops_skipped", s.skipped),
        ("saves_ok", s.saves_ok),
        ("saves_refused(reference_without_marker_or_writer_error)", s.saves_err),
        ("loads_ok", s.loads_ok),
        ("loads_failed", s.loads_err),
        ("probe.load_into_populated_world", s.loads_into_populated),
        ("probe.load_same_data_again", s.loads_repeated),
        ("probe.load_data_of_other_world", s.loads_cross_world),
        ("probe.load_ids_above_allocator_counter", s.loads_ids_above_counter),
        ("probe.load_with_stale_mapping_entry", s.stale_mapping_loads),
        ("markers_updated_in_place", s.updated_in_place),
        ("entities_created_by_load", s.created_by_load),
        ("marks_of_already_marked", s.marks_existing),
        ("marks_new", s.marks_new),
        ("fault.stream_truncated", s.fault_truncate),
        ("fault.stream_byte_corrupted", s.fault_corrupt),
        ("fault.stream_corrupted_but_still_loaded", s.fault_corrupt_still_parsed),
        ("fault.writer_error", s.fault_writer),
        ("maintains(logical_frames)", s.maintains),
    ] {
        if val > 0 {
            counters.insert(k.to_string(), val);
        }
    }
    let nt = if s.loads_into_populated >= 1 && s.updated_in_place >= 1 {
        Some(o.trace ^ c.seed)
    } else {
        None
    };
    let failed = o.violation.is_some();
    Report {
        violation: o.violation,
        case: if failed || want { Some(serde_json::to_value(c).unwrap()) } else { None },
        trace_hash: o.trace,
        counters,
        sets: BTreeMap::new(),
        nontrivial: nt,
        executions: 1,
    }
}

fn fails(c: &SCase, prop: &str, oracle: &str) -> bool {
    matches!(run_case(c).violation, Some(v) if v.oracle == oracle && v.concerns(prop))
}

impl Engine for SaveSim {
    fn name(&self) -> &'static str {
        "savesim"
    }
    fn run_seed(&self, _profile: &str, seed: u64, _prop: &str, want_case: bool) -> Report {
        let c = gen_case(seed);
        let o = run_case(&c);
        report(&c, o, want_case)
    }
    fn replay(&self, case: &serde_json::Value, _prop: &str) -> Report {
        let c: SCase = match serde_json::from_value(case.clone()) {
            Ok(c) => c,
            Err(e) => {
                return Report {
                    violation: Some(v(&[], "harness", format!("cannot parse case: {}", e))),
                    ..Default::default()
                }
            }
        };
        let o = run_case(&c);
        report(&c, o, true)
    }
    fn shrink(&self, case: serde_json::Value, prop: &str, oracle: &str) -> serde_json::Value {
        let c: SCase = serde_json::from_value(case).unwrap();
        if !fails(&c, prop, oracle) {
            return serde_json::to_value(c).unwrap();
        }
        let seed = c.seed;
        let ops = ddmin(c.ops, |cand| {
            fails(
                &SCase {
                    seed,
                    ops: cand.to_vec(),
                },
                prop,
                oracle,
            )
        });
        serde_json::to_value(SCase { seed, ops }).unwrap()
    }
    fn rule(&self, _profile: &str, _prop: &str) -> String {
        "a case is one seeded history of 4-26 steps over two worlds: create (immediate / lazy builder, marked or not, with entity references), mark, delete (immediate / deferred), maintain, allocator maintenance, serialise (plain / recursive, JSON / RON, optionally with a failing writer) into a pool, deserialise a pool entry (own or other world's, possibly loaded before, optionally truncated or with one corrupted byte) into either world; non-trivial: at least one load into a populated world that updated at least one marker in place; distinct: hash of (handles observed, serialised bytes, world sizes)".into()
    }
    fn components(&self) -> serde_json::Value {
        serde_json::json!({
            "real": ["specs saveload: SerializeComponents::{serialize, serialize_recursive}, DeserializeComponents::deserialize, MarkerAllocator::{mark, retrieve_entity, allocate, maintain}, SimpleMarker(Allocator), MarkedBuilder", "serde_json and ron as (de)serialisers", "World / storages / lazy updates"],
            "stub": ["the byte stream between save and load is owned by the simulator (truncation, corruption, writer errors)", "UuidMarker is not exercised (its ids are OS-random by design)"]
        })
    }
}
