//! Which engines/profiles decide which property, with fixed run counts per tier (not time budgets),
//! so that the evidence of a tier is itself reproducible.

use crate::runner::{run_part, MiriSpec, Part, Plan, DEFAULT_SEED};
use std::time::Duration;

fn p(engine: &'static str, profile: &'static str, quick: u64, thorough: u64) -> Part {
    Part {
        engine,
        profile,
        quick,
        thorough,
    }
}

const A_SAMPLING: &str = "seeded search samples histories, schedules and fault points; a clean batch is evidence, not proof";
const A_SC: &str = "baton scheduler explores sequentially consistent interleavings of the code segments between cfg(specs_verif) yield points; hibitset / crossbeam internals are atomic steps here";
const A_MODEL: &str = "the reference model's reading of the create/delete/maintain timeline (DESIGN.md section 11) is the specification";

pub fn plan(prop: &str) -> Option<Plan> {
    let base = vec![A_SAMPLING, A_MODEL];
    Some(match prop {
        "C01" => Plan {
            level: "exploration",
            parts: vec![
                p("worldsim", "lifecycle", 160_000, 4_500_000),
                p("worldsim", "bulk", 12_000, 300_000),
                p("worldsim", "parallel", 18_000, 600_000),
            ],
            cross_process: false,
            miri: vec![],
            assumptions: vec![A_SAMPLING, A_MODEL, A_SC],
        },
        "C02" => Plan {
            level: "exploration",
            parts: vec![p("worldsim", "lifecycle", 160_000, 4_500_000), p("worldsim", "churn", 32_000, 900_000), p("worldsim", "bulk", 12_000, 300_000)],
            cross_process: false,
            miri: vec![],
            assumptions: base,
        },
        "C17" => Plan {
            level: "exploration",
            parts: vec![p("worldsim", "churn", 80_000, 3_000_000), p("worldsim", "lifecycle", 60_000, 1_500_000), p("worldsim", "bulk", 12_000, 300_000), p("worldsim", "parallel", 20_000, 400_000), p("worldsim", "faults", 30_000, 300_000)],
            cross_process: false,
            miri: vec![],
            assumptions: base,
        },
        "C03" => Plan {
            level: "exploration",
            parts: vec![p("worldsim", "stale", 240_000, 6_000_000), p("worldsim", "restricted", 80_000, 1_500_000)],
            cross_process: false,
            miri: vec![],
            assumptions: base,
        },
        "C04" => Plan {
            level: "exploration",
            parts: vec![p("worldsim", "storage", 240_000, 7_500_000)],
            cross_process: false,
            miri: vec![],
            assumptions: base,
        },
        "C05" => Plan {
            level: "exploration",
            parts: vec![p("worldsim", "purge", 200_000, 4_500_000)],
            cross_process: false,
            miri: vec![],
            assumptions: base,
        },
        "C08" => Plan {
            level: "exploration",
            parts: vec![p("worldsim", "values", 200_000, 4_500_000), p("worldsim", "faults", 30_000, 300_000)],
            cross_process: false,
            miri: vec![MiriSpec { args: vec!["values"], seeds: 1 }],
            assumptions: base,
        },
        "C09" => Plan {
            level: "exploration",
            parts: vec![p("worldsim", "lazy", 240_000, 6_000_000)],
            cross_process: false,
            miri: vec![],
            assumptions: base,
        },
        "C12" => Plan {
            level: "exploration",
            parts: vec![p("worldsim", "tracked", 240_000, 6_000_000), p("worldsim", "trackedfaults", 30_000, 400_000)],
            cross_process: false,
            miri: vec![],
            assumptions: base,
        },
        "C13" => Plan {
            level: "exploration",
            parts: vec![p("worldsim", "restricted", 240_000, 6_000_000), p("joinsim", "restricted", 6_000, 240_000)],
            cross_process: false,
            miri: vec![],
            assumptions: base,
        },
        "C10" => Plan {
            level: "exploration",
            parts: vec![p("worldsim", "parallel", 90_000, 3_000_000)],
            cross_process: false,
            miri: vec![MiriSpec { args: vec!["par", "2", "2", "4"], seeds: 32 }, MiriSpec { args: vec!["par", "1", "3", "3"], seeds: 16 }],
            assumptions: vec![A_SAMPLING, A_MODEL, A_SC],
        },
        "C19" => Plan {
            level: "fault_enumeration",
            parts: vec![p("worldsim", "faults", 150_000, 1_500_000)],
            cross_process: false,
            miri: vec![MiriSpec { args: vec!["faults"], seeds: 1 }],
            assumptions: vec![A_SAMPLING, A_MODEL, "one destructor fault is armed at a time and disarms when it fires (a second panic while unwinding aborts the process and says nothing about the property); faults are addressed by value identity, never by destructor call order (hash-map drop order is per-process)"],
        },
        "C07" => Plan {
            level: "exploration",
            parts: vec![p("joinsim", "mixed", 12_000, 450_000), p("joinsim", "readonly", 3_000, 90_000)],
            cross_process: false,
            miri: vec![],
            assumptions: vec![A_SAMPLING, "mode A's seeded split tree is a superset of the trees rayon can produce; mode B runs rayon's real bridge for an N-thread pool without steals", "visibility of worker writes after par_join returns is rayon's join guarantee, not specs code; checked here on the single running thread"],
        },
        "C11" => Plan {
            level: "exploration",
            parts: vec![p("dispatchsim", "default", 40_000, 1_500_000)],
            cross_process: false,
            miri: vec![],
            assumptions: vec![A_SAMPLING, "shred's Stage::execute (rayon par_iter_mut over the groups of a stage) is replaced by baton tasks; the baton policies range from one group at a time to all groups interleaved at every step, which covers every pool size", "exactly-once and dependency order are statements about shred's planner (outside /repo); they are checked because they are cheap"],
        },
        "C15" => Plan {
            level: "exploration",
            parts: vec![p("savesim", "default", 900_000, 12_000_000)],
            cross_process: false,
            miri: vec![],
            assumptions: vec![A_SAMPLING, "the data handed to a load is parsed independently (serde types only, none of the loader's logic) to know what it says", "generator contract of the plain serialiser: a reference to an entity without marker makes the save fail (our Link conversion returns Err instead of unwrapping)", "SimpleMarker only; UuidMarker ids are OS-random by design and are not exercised"],
        },
        "C20" => Plan {
            level: "exploration",
            parts: vec![p("twin", "world", 36_000, 1_200_000), p("twin", "save", 36_000, 1_200_000), p("twin", "faults", 6_000, 100_000), p("twin", "bulkhuge", 900, 12_000)],
            cross_process: true,
            miri: vec![],
            assumptions: vec![A_SAMPLING, "destructor order inside HashMapStorage::clear / world teardown and UuidMarker values are not part of the transcript (hash order / OS randomness by construction, and not among the observables the property lists)", "ahash's per-process random keys have no seam; they are varied by re-executing in other processes", "clock jumps are injected at clock reads (clock_gettime) of the thread running the second twin execution; where the code under test reads no clock (counter clock_reads_by_code_under_simulated_clock = 0, as on the unchanged tree) none is applied and fault.clock_jump.applied stays 0"],
        },
        _ => return None,
    })
}

/// Determinism self-test: every seed twice, in different worker processes and at different worker
/// counts; the per-run trace hashes must agree.
pub fn selftest(runs: u64) -> i32 {
    let mut bad = 0;
    for (engine, profile) in [
        ("worldsim", "lifecycle"),
        ("worldsim", "churn"),
        ("worldsim", "stale"),
        ("worldsim", "storage"),
        ("worldsim", "purge"),
        ("worldsim", "values"),
        ("worldsim", "lazy"),
        ("worldsim", "tracked"),
        ("worldsim", "restricted"),
        ("worldsim", "parallel"),
        ("worldsim", "faults"),
        ("joinsim", "mixed"),
        ("joinsim", "restricted"),
        ("dispatchsim", "default"),
        ("savesim", "default"),
        ("twin", "world"),
        ("twin", "save"),
        ("twin", "faults"),
        ("worldsim", "trackedfaults"),
        ("worldsim", "bulk"),
        ("twin", "bulkhuge"),
    ] {
        let part = p(engine, profile, runs, runs);
        let a = run_part("", &part, runs, DEFAULT_SEED, 16, Duration::from_secs(600), true);
        let b = run_part("", &part, runs, DEFAULT_SEED, 5, Duration::from_secs(600), true);
        let c = run_part("", &part, runs, DEFAULT_SEED, 1, Duration::from_secs(600), true);
        let mut diff = 0;
        for (i, h) in &a.trace {
            if b.trace.get(i) != Some(h) || c.trace.get(i) != Some(h) {
                diff += 1;
            }
        }
        println!(
            "selftest {}:{} runs={} (16 workers) / {} (5 workers) / {} (1 worker) divergent={}",
            engine,
            profile,
            a.trace.len(),
            b.trace.len(),
            c.trace.len(),
            diff
        );
        if diff > 0 || a.trace.len() as u64 != runs || b.trace.len() as u64 != runs || c.trace.len() as u64 != runs {
            bad += 1;
        }
    }
    if bad > 0 {
        eprintln!("HARNESS-ERROR: determinism self-test failed");
        2
    } else {
        0
    }
}
