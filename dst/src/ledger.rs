//! Construction / destruction ledger for instrumented component values, plus the destructor-fault
//! injector. A `Val` owns no heap memory, so even a double drop in a broken tree is *observed* here
//! instead of corrupting the allocator.

use std::sync::Mutex;

#[derive(Clone, Copy, PartialEq, Eq, Debug)]
pub enum VState {
    /// somewhere: in a storage, a lazy queue, a change set, or in transit
    Live,
    /// handed back to the caller (and accounted for by the harness)
    Returned,
    /// destroyed by its destructor
    Destroyed,
}

#[derive(Clone, Copy, Debug)]
struct Entry {
    state: VState,
    filler: bool,
    drops: u32,
}

#[derive(Default)]
pub struct Ledger {
    entries: Vec<Entry>,
    drop_log: Vec<u64>,
    anomalies: Vec<String>,
    fault_id: Option<u64>,
    fault_fired: bool,
    pub faults_fired_total: u64,
    pub zst_created: u64,
    pub zst_dropped: u64,
    pub zst_returned: u64,
    /// fire when the `zst_dropped` counter reaches this value
    zst_fault_at: Option<u64>,
    /// fire on the next destruction of a default-filler value
    filler_fault: bool,
}

static LEDGER: Mutex<Option<Ledger>> = Mutex::new(None);

pub const FAULT_MSG: &str = "injected destructor fault";

fn with<R>(f: impl FnOnce(&mut Ledger) -> R) -> R {
    let mut g = LEDGER.lock().unwrap_or_else(|e| e.into_inner());
    if g.is_none() {
        *g = Some(Ledger::default());
    }
    f(g.as_mut().unwrap())
}

/// Starts a fresh ledger for a new run.
pub fn reset() {
    let mut g = LEDGER.lock().unwrap_or_else(|e| e.into_inner());
    *g = Some(Ledger::default());
}

/// An instrumented value. Deliberately not `Clone`.
#[derive(Debug)]
pub struct Val {
    pub id: u64,
    pub payload: i64,
}

pub fn new_val(payload: i64) -> Val {
    let id = with(|l| {
        l.entries.push(Entry {
            state: VState::Live,
            filler: false,
            drops: 0,
        });
        l.entries.len() as u64
    });
    Val { id, payload }
}

pub const FILLER_PAYLOAD: i64 = -7_777_777;

impl Default for Val {
    fn default() -> Self {
        let id = with(|l| {
            l.entries.push(Entry {
                state: VState::Live,
                filler: true,
                drops: 0,
            });
            l.entries.len() as u64
        });
        Val {
            id,
            payload: FILLER_PAYLOAD,
        }
    }
}

impl Drop for Val {
    fn drop(&mut self) {
        let id = self.id;
        let fire = with(|l| {
            let n = l.entries.len() as u64;
            if id == 0 || id > n {
                l.anomalies
                    .push(format!("destructor ran on a value with unknown id {}", id));
                return false;
            }
            let e = &mut l.entries[(id - 1) as usize];
            e.drops += 1;
            match e.state {
                VState::Live => e.state = VState::Destroyed,
                VState::Destroyed => l
                    .anomalies
                    .push(format!("value {} destroyed twice (drop #{})", id, e.drops)),
                VState::Returned => l.anomalies.push(format!(
                    "value {} destroyed after it had been returned to the caller",
                    id
                )),
            }
            l.drop_log.push(id);
            let filler_hit = l.filler_fault && l.entries[(id - 1) as usize].filler;
            if (l.fault_id == Some(id) || filler_hit) && !l.fault_fired && !std::thread::panicking() {
                l.fault_fired = true;
                l.faults_fired_total += 1;
                true
            } else {
                false
            }
        });
        if fire {
            panic!("{}", FAULT_MSG);
        }
    }
}

/// The harness takes final responsibility for a value specs handed back.
pub fn consume(v: Val) -> (u64, i64) {
    let id = v.id;
    let payload = v.payload;
    with(|l| {
        let n = l.entries.len() as u64;
        if id == 0 || id > n {
            l.anomalies
                .push(format!("a value with unknown id {} was returned", id));
            return;
        }
        let e = &mut l.entries[(id - 1) as usize];
        match e.state {
            VState::Live => e.state = VState::Returned,
            VState::Returned => l
                .anomalies
                .push(format!("value {} returned to the caller twice", id)),
            VState::Destroyed => l.anomalies.push(format!(
                "value {} returned to the caller after it had been destroyed",
                id
            )),
        }
    });
    std::mem::forget(v);
    (id, payload)
}

pub fn state(id: u64) -> Option<VState> {
    with(|l| l.entries.get((id.wrapping_sub(1)) as usize).map(|e| e.state))
}

pub fn is_filler(id: u64) -> bool {
    with(|l| {
        l.entries
            .get((id.wrapping_sub(1)) as usize)
            .map(|e| e.filler)
            .unwrap_or(false)
    })
}

/// Ids destroyed since the last call.
pub fn take_drops() -> Vec<u64> {
    with(|l| std::mem::take(&mut l.drop_log))
}

pub fn take_anomalies() -> Vec<String> {
    with(|l| std::mem::take(&mut l.anomalies))
}

/// Non-filler ids still `Live`.
pub fn live_ids() -> Vec<u64> {
    with(|l| {
        l.entries
            .iter()
            .enumerate()
            .filter(|(_, e)| e.state == VState::Live && !e.filler)
            .map(|(i, _)| i as u64 + 1)
            .collect()
    })
}

pub fn live_fillers() -> u64 {
    with(|l| {
        l.entries
            .iter()
            .filter(|e| e.state == VState::Live && e.filler)
            .count() as u64
    })
}

pub fn total_vals() -> u64 {
    with(|l| l.entries.len() as u64)
}

pub fn arm_fault(id: u64) {
    with(|l| {
        l.fault_id = Some(id);
        l.fault_fired = false;
    })
}

pub fn arm_filler_fault() {
    with(|l| {
        l.filler_fault = true;
        l.fault_fired = false;
    })
}

pub fn arm_zst_fault(after_n_more_drops: u64) {
    with(|l| {
        l.zst_fault_at = Some(l.zst_dropped + after_n_more_drops);
        l.fault_fired = false;
    })
}

/// Disarms; returns whether the armed fault fired.
pub fn disarm() -> bool {
    with(|l| {
        let f = l.fault_fired;
        l.fault_id = None;
        l.zst_fault_at = None;
        l.filler_fault = false;
        l.fault_fired = false;
        f
    })
}

pub fn faults_fired_total() -> u64 {
    with(|l| l.faults_fired_total)
}

pub fn zst_created() {
    with(|l| l.zst_created += 1)
}

pub fn zst_returned() {
    with(|l| l.zst_returned += 1)
}

pub fn zst_on_drop() {
    let fire = with(|l| {
        l.zst_dropped += 1;
        if l.zst_fault_at == Some(l.zst_dropped) && !l.fault_fired && !std::thread::panicking() {
            l.fault_fired = true;
            l.faults_fired_total += 1;
            true
        } else {
            false
        }
    });
    if fire {
        panic!("{}", FAULT_MSG);
    }
}

/// (created, dropped, returned)
pub fn zst_counts() -> (u64, u64, u64) {
    with(|l| (l.zst_created, l.zst_dropped, l.zst_returned))
}
